//go:build verif

package logic

import (
	"github.com/algorand/go-algorand/config"
	"github.com/algorand/go-algorand/data/basics"
	"github.com/algorand/go-algorand/data/transactions"
	vr "github.com/algorand/go-algorand/internal/verifrt"
	"github.com/algorand/go-algorand/ledger/ledgercore"
	"github.com/algorand/go-algorand/protocol"
)

// C35 (lemma level): an application program can touch only resources that the
// transaction group made available to it.
//
// Code under test (all real): EvalParams.computeAvailability -> resources.fill*
// / share*, EvalParams.RecordAD (created assets), and the per-opcode resolvers
// of eval.go: availableAccount / accountReference / mutableAccountReference /
// assignAccount, availableAsset / assetReference / resolveAsset / assignAsset,
// availableApp / appReference / resolveApp / assignApp, allowsHolding /
// requireHolding / holdingReference, allowsLocals / requireLocals /
// localsReference.
//
// Scenario: an application-mode EvalContext for the app call at group index 0
// of a group of one or two transactions. The other transaction is of any type
// (pay, keyreg, acfg, axfer, afrz, appl with foreign arrays, appl with
// tx.Access). Addresses / asset ids / app ids that occur in the transactions
// are picked SYMBOLICALLY from small sets (so any two of them may or may not
// coincide, and an account may "psychically" equal an app address); the program
// version is symbolic (4..LogicVersion, or 7..10 in the two-transaction
// scenarios); the asset / app id the program asks for is a fully symbolic
// uint64, the address it asks for ranges over every address of the scenario, the
// zero address and an outsider. At most 2 entries per reference list.
//
// Oracle (written from the AVM specification, "Resource availability"): see
// verifC35Oracle below. Checks have the forms
//        resolver succeeded  ==>  oracle says the RETURNED resource is available
//        availableX / allowsX  <==>  oracle   (exact; keeps the oracle honest)
//
// The app address hash (basics.AppIndex.Address) is replaced by an injective
// function of the id (an app address never collides with another app's; an
// ordinary account MAY be chosen equal to it). cx.UnnamedResources (simulation
// only) is nil. Not covered: boxes, inner-transaction allows* checks
// (allowsAssetTransfer / allowsApplicationCall ...), program versions < 4 (where
// an app id operand was taken as is), groups of more than two transactions.
//
// Engine note: ids and addresses are built ARITHMETICALLY from one symbolic
// byte each, not looked up in tables (ite chains over table entries made z3's
// qfbv tactic 100x slower): asset / app ids are 252 + 2k, k < 5, i.e. 252 254 |
// 256 258 260, on both sides of lastForbiddenResource (255); plain accounts are
// (0x01, k); an address is a plain account or the app account of such an app.
// No package-level variables are used (they would trigger the package
// initializer = the opcode tables in every path).

// Program versions of the specification, restated as literals on purpose (the
// harness must not follow the code's constants if those were wrong).
const (
	verifC35VDirect  = 4 // opcodes take ids / addresses directly
	verifC35VCreated = 6 // resources created earlier in the group are available
	verifC35VAppAddr = 7 // app accounts of foreign apps are available
	verifC35VSharing = 9 // group resource sharing; cross products are tracked
)

const (
	verifC35IDBase     = 252
	verifC35IDs        = 5
	verifC35CurApp     = basics.AppIndex(256) // the app being called (ApplicationID of txn 0)
	verifC35OtherApp   = basics.AppIndex(258) // the app called by txn 1
	verifC35CreatedApp = basics.AppIndex(260) // id given to txn 0's app when txn 0 is a creation
	verifC35Plain      = 4                    // plain accounts 0..3: 0 = sender of txn 0, 1 = sender of txn 1
)

// verifC35AppAddr stands for basics.AppIndex.Address(): injective in the id.
// Ordinary accounts MAY be picked equal to an app account.
func verifC35AppAddr(app basics.AppIndex) basics.Address {
	var a basics.Address
	a[0] = 0xA9
	a[1] = byte(app)
	a[2] = byte(app >> 8)
	a[3] = byte(app >> 16)
	a[4] = byte(app >> 24)
	a[5] = byte(app >> 32)
	a[6] = byte(app >> 40)
	a[7] = byte(app >> 48)
	a[8] = byte(app >> 56)
	return a
}

func verifC35PlainAddr(n byte) basics.Address {
	var a basics.Address
	a[0] = 0x01
	a[1] = n
	return a
}

func verifC35PickID(label string) uint64 {
	k := vr.U8(label)
	vr.Assume(k < verifC35IDs)
	return verifC35IDBase + 2*uint64(k)
}

func verifC35PickAsset(label string) basics.AssetIndex {
	return basics.AssetIndex(verifC35PickID(label))
}
func verifC35PickApp(label string) basics.AppIndex { return basics.AppIndex(verifC35PickID(label)) }

// a plain account or the account of a pool app
func verifC35PickAddr(label string) basics.Address {
	k := vr.U8(label)
	vr.Assume(k < verifC35Plain+verifC35IDs)
	if k < verifC35Plain {
		return verifC35PlainAddr(k)
	}
	return verifC35AppAddr(basics.AppIndex(verifC35IDBase + 2*uint64(k-verifC35Plain)))
}

// an optional address field: zero ("not set") or a pool address
func verifC35PickOptAddr(label string) basics.Address {
	a := verifC35PickAddr(label)
	if vr.Bool(label + ".unset") {
		return basics.Address{}
	}
	return a
}

// ---------------------------------------------------------------- scenario

type verifC35Scenario struct {
	bySlot      bool // account operands are slot numbers instead of addresses
	access      bool // transaction 0 uses tx.Access
	cx          *EvalContext
	group       []transactions.SignedTxnWithAD
	createdApps []basics.AppIndex   // apps created earlier in this group (incl. the current one on creation)
	createdAsas []basics.AssetIndex // assets created earlier in this group
}

func verifC35Proto() *config.ConsensusParams {
	p := verifC31Proto()
	p.AppForbidLowResources = vr.Bool("forbid-low")
	return p
}

const (
	verifC35KindNone = iota
	verifC35KindPay
	verifC35KindKeyreg
	verifC35KindAcfg
	verifC35KindAxfer
	verifC35KindAfrz
	verifC35KindApplArrays
	verifC35KindApplAccess
	verifC35Kinds
)

// verifC35Appl fills an app call's reference lists. nacc/nasa/napp entries
// each; with access=true the same resources are named through tx.Access
// (addresses, assets, apps, then optionally one holding and one locals
// cross-reference built from 1-based indexes into the list, as wellFormed demands).
func verifC35Appl(tx *transactions.Transaction, l string, access bool, nacc, nasa, napp int) {
	verifC35ApplRefs(tx, l, access, false, nacc, nasa, napp)
}

func verifC35ApplRefs(tx *transactions.Transaction, l string, access, concrete bool, nacc, nasa, napp int) {
	tx.Type = protocol.ApplicationCallTx
	if concrete {
		accts := []basics.Address{verifC35PlainAddr(2), verifC35PlainAddr(3)}[:nacc]
		asas := []basics.AssetIndex{258, 254}[:nasa]
		apps := []basics.AppIndex{260, 254}[:napp]
		if !access {
			tx.Accounts, tx.ForeignAssets, tx.ForeignApps = accts, asas, apps
			return
		}
		tx.Access = []transactions.ResourceRef{}
		for _, a := range accts {
			tx.Access = append(tx.Access, transactions.ResourceRef{Address: a})
		}
		for _, x := range asas {
			tx.Access = append(tx.Access, transactions.ResourceRef{Asset: x})
		}
		for _, p := range apps {
			tx.Access = append(tx.Access, transactions.ResourceRef{App: p})
		}
		return
	}
	if !access {
		for i := 0; i < nacc; i++ {
			tx.Accounts = append(tx.Accounts, verifC35PickAddr(l+".acct"))
		}
		for i := 0; i < nasa; i++ {
			tx.ForeignAssets = append(tx.ForeignAssets, verifC35PickAsset(l+".asa"))
		}
		for i := 0; i < napp; i++ {
			tx.ForeignApps = append(tx.ForeignApps, verifC35PickApp(l+".app"))
		}
		return
	}
	tx.Access = []transactions.ResourceRef{}
	for i := 0; i < nacc; i++ {
		tx.Access = append(tx.Access, transactions.ResourceRef{Address: verifC35PickAddr(l + ".acct")})
	}
	for i := 0; i < nasa; i++ {
		tx.Access = append(tx.Access, transactions.ResourceRef{Asset: verifC35PickAsset(l + ".asa")})
	}
	for i := 0; i < napp; i++ {
		tx.Access = append(tx.Access, transactions.ResourceRef{App: verifC35PickApp(l + ".app")})
	}
	if nasa > 0 && vr.Bool(l+".hashold") {
		// holding of (sender | first address) x first asset
		hr := transactions.HoldingRef{Asset: uint64(nacc + 1)}
		if nacc > 0 && (l == "o" && vr.Param(1, 0) == 1 || vr.Bool(l+".hold.acct")) {
			hr.Address = 1 // (quick tier: the other transaction always names the listed address' holding)
		}
		tx.Access = append(tx.Access, transactions.ResourceRef{Holding: hr})
	}
	if napp > 0 && vr.Bool(l+".haslocal") {
		lr := transactions.LocalsRef{App: uint64(nacc + nasa + 1)}
		if nacc > 0 && (l == "o" && vr.Param(1, 0) == 1 || vr.Bool(l+".local.acct")) {
			lr.Address = 1
		}
		tx.Access = append(tx.Access, transactions.ResourceRef{Locals: lr})
	}
}

// verifC35Other builds the second transaction of the group. Fields of the
// resource classes in focus (accounts / assets / apps: the ones the harness asks
// about) are picked symbolically; fields of the other classes take fixed values
// (they only multiply paths inside the availability maps).
func verifC35Other(kind int, fAcct, fAsa, fApp, fOpt bool) transactions.Transaction {
	addr := func(l string) basics.Address {
		if fAcct {
			return verifC35PickAddr(l)
		}
		return verifC35PlainAddr(3)
	}
	optAddr := func(l string) basics.Address {
		if fAcct && fOpt {
			return verifC35PickOptAddr(l)
		}
		return basics.Address{}
	}
	asset := func(l string) basics.AssetIndex {
		if fAsa {
			return verifC35PickAsset(l)
		}
		return 254
	}
	n := func(b bool) int {
		if b {
			return 1
		}
		return 0
	}
	var tx transactions.Transaction
	tx.Sender = verifC35PlainAddr(1)
	switch kind {
	case verifC35KindPay:
		tx.Type = protocol.PaymentTx
		tx.Receiver = addr("o.rcv")
		tx.CloseRemainderTo = optAddr("o.close")
	case verifC35KindKeyreg:
		tx.Type = protocol.KeyRegistrationTx
	case verifC35KindAcfg:
		tx.Type = protocol.AssetConfigTx
		if vr.Bool("o.acfg.existing") {
			tx.ConfigAsset = asset("o.casset")
		}
		tx.AssetParams.Manager = addr("o.manager") // never becomes available
	case verifC35KindAxfer:
		tx.Type = protocol.AssetTransferTx
		tx.XferAsset = asset("o.xasset")
		tx.AssetReceiver = addr("o.arcv")
		tx.AssetSender = optAddr("o.asnd")
		if fAcct && fOpt && vr.Bool("o.aclose.set") {
			tx.AssetCloseTo = verifC35PlainAddr(3) // (a fixed account: a third symbolic address triples the paths)
		}
	case verifC35KindAfrz:
		tx.Type = protocol.AssetFreezeTx
		tx.FreezeAsset = asset("o.fasset")
		tx.FreezeAccount = addr("o.facct")
	case verifC35KindApplArrays:
		tx.ApplicationID = verifC35OtherApp
		verifC35Appl(&tx, "o", false, n(fAcct), n(fAsa), n(fApp))
	case verifC35KindApplAccess:
		tx.ApplicationID = verifC35OtherApp
		verifC35Appl(&tx, "o", true, n(fAcct), n(fAsa), n(fApp))
	}
	return tx
}

type verifC35Opts struct {
	access            bool   // transaction 0 names its resources through tx.Access
	nacc, nasa, napp  int    // lengths of transaction 0's reference lists
	kinds             []int  // what the other transaction may be (chosen by forking)
	minV, maxV        uint64 // program version range (symbolic inside)
	createApp         bool   // transaction 0 may be an app creation; an app created earlier in the group may exist
	mode              int    // with createApp: 1+creation mode to fix it, 0 = choose by forking
	bySlot            bool   // account operands are slot numbers
	concrete0         bool   // transaction 0's references are fixed, distinct values (only the rest is picked)
	fAcct, fAsa, fApp bool   // resource classes the other transaction picks symbolically
	fOpt              bool   // ... including its optional address fields (close-to, clawback source)
	createAsa         bool   // an asset created earlier in the group may exist
}

// verifC35Build makes the group, runs the REAL availability computation and
// returns the evaluation context of transaction 0.
func verifC35Build(opt verifC35Opts) *verifC35Scenario {
	s := &verifC35Scenario{bySlot: opt.bySlot, access: opt.access}
	kind := opt.kinds[0]
	if len(opt.kinds) > 1 {
		kind = opt.kinds[vr.Choice("other-kind", len(opt.kinds))]
	}
	n := 2
	if kind == verifC35KindNone {
		n = 1
	}
	s.group = make([]transactions.SignedTxnWithAD, n)
	t0 := &s.group[0].Txn
	t0.Sender = verifC35PlainAddr(0)
	// 0: call of an existing app; 1: creation (the new app gets its id before it
	// runs); 2: call of an existing app after some app was created earlier in the group
	mode := 0
	if opt.createApp {
		if opt.mode > 0 {
			mode = opt.mode - 1
		} else {
			mode = vr.Choice("creation-mode", 3)
		}
	}
	create := mode == 1
	appID := verifC35CurApp
	if create {
		appID = verifC35CreatedApp
	} else {
		t0.ApplicationID = verifC35CurApp
	}
	verifC35ApplRefs(t0, "t", opt.access, opt.concrete0, opt.nacc, opt.nasa, opt.napp)
	if n == 2 {
		s.group[1].Txn = verifC35Other(kind, opt.fAcct, opt.fAsa, opt.fApp, opt.fOpt)
	}

	ep := NewAppEvalParams(s.group, verifC35Proto(), &transactions.SpecialAddresses{})
	s.group = ep.TxnGroup // NewAppEvalParams copies the group
	ep.available = ep.computeAvailability()
	cx := &EvalContext{EvalParams: ep, runMode: ModeApp, groupIndex: 0, txn: &ep.TxnGroup[0], appID: appID}

	// what EvalContract does for a creation (eval.go: "add the appID to createdApps")
	if create {
		ep.available.createdApps = map[basics.AppIndex]struct{}{appID: {}}
		s.createdApps = append(s.createdApps, appID)
	}
	// an app created by an earlier (inner) transaction of this group
	if mode == 2 {
		c := verifC35PickApp("created-app")
		if ep.available.createdApps == nil {
			ep.available.createdApps = map[basics.AppIndex]struct{}{}
		}
		ep.available.createdApps[c] = struct{}{}
		s.createdApps = append(s.createdApps, c)
	}
	// an asset created by an earlier transaction of this group: the real RecordAD
	if opt.createAsa && vr.Bool("earlier-created-asa") {
		c := verifC35PickAsset("created-asa")
		ep.RecordAD(0, transactions.ApplyData{ConfigAsset: c})
		s.createdAsas = append(s.createdAsas, c)
	}

	// program version: tx.Access only reaches programs of the sharing version or
	// later (eval.go begin(): "pre-sharedResources program cannot be invoked with
	// tx.Access")
	v := uint64(vr.U8("version"))
	vr.Assume(v >= opt.minV && v <= opt.maxV)
	if opt.access {
		vr.Assume(v >= verifC35VSharing)
	}
	cx.version = v
	s.cx = cx
	return s
}

// ---------------------------------------------------------------- oracle
//
// AVM specification, restated. Let T be the app call being evaluated, v its
// program version, cur the id of the app being run.
//
// What ONE transaction t names (and, from v9 on, thereby shares with the group):
//   accounts(t): pay {Sender, Receiver, CloseRemainderTo if set}; keyreg {Sender};
//      acfg {Sender}; axfer {Sender, AssetReceiver, AssetSender if set, AssetCloseTo
//      if set}; afrz {Sender, FreezeAccount}; appl {Sender} + Accounts + app
//      account of ApplicationID (if not a creation) + app accounts of ForeignApps;
//      appl with tx.Access {Sender} + the addresses listed.
//   assets(t): acfg {ConfigAsset if not a creation}; axfer {XferAsset}; afrz
//      {FreezeAsset}; appl ForeignAssets / the assets listed in tx.Access.
//   apps(t): appl {ApplicationID if not a creation} + ForeignApps / apps listed.
//   holdings(t): axfer accounts(t) x {XferAsset}; afrz {(FreezeAccount,
//      FreezeAsset)}; appl accounts(t) x ForeignAssets; with tx.Access exactly the
//      listed holdings. Never pairs taken from two different transactions.
//   locals(t): appl accounts(t) x apps(t); with tx.Access (Sender, ApplicationID)
//      plus exactly the listed locals.
//
// Available to T's program:
//   account a: a is T.Sender, in T.Accounts (or an address in T.Access), the app
//      account of cur; v>=7: app account of an app in T.ForeignApps; v>=6: app
//      account of an app created earlier in the group; v>=9: in accounts(t) for
//      some t of the group.
//   asset x: in T.ForeignAssets (or T.Access); v>=6: created earlier in the
//      group; v>=9: in assets(t) for some t.
//   app p: cur, in T.ForeignApps (or T.Access); v>=6: created earlier in the
//      group; v>=9: in apps(t) for some t.
//   holding (a,x): v<9: a and x available. v>=9: (a,x) in holdings(t) for ONE t;
//      or x created in this group and a available; or a is the app account of an
//      app created in this group and x available.
//   locals (a,p): v<9: a and p available. v>=9: (a,p) in locals(t) for ONE t; or
//      p created in this group and a available; or a is the app account of an
//      app created in this group and p available.
//   With AppForbidLowResources, asset / app ids <= 255 are never usable.

type verifC35Names struct {
	accounts []basics.Address
	assets   []basics.AssetIndex
	apps     []basics.AppIndex
	holdings []ledgercore.AccountAsset
	locals   []ledgercore.AccountApp
}

func verifC35NamesOf(tx *transactions.Transaction) *verifC35Names {
	n := &verifC35Names{}
	n.accounts = append(n.accounts, tx.Sender)
	switch tx.Type {
	case protocol.PaymentTx:
		n.accounts = append(n.accounts, tx.Receiver)
		if !tx.CloseRemainderTo.IsZero() {
			n.accounts = append(n.accounts, tx.CloseRemainderTo)
		}
	case protocol.KeyRegistrationTx:
	case protocol.AssetConfigTx:
		if tx.ConfigAsset != 0 {
			n.assets = append(n.assets, tx.ConfigAsset)
		}
	case protocol.AssetTransferTx:
		n.accounts = append(n.accounts, tx.AssetReceiver)
		if !tx.AssetSender.IsZero() {
			n.accounts = append(n.accounts, tx.AssetSender)
		}
		if !tx.AssetCloseTo.IsZero() {
			n.accounts = append(n.accounts, tx.AssetCloseTo)
		}
		n.assets = append(n.assets, tx.XferAsset)
		for _, a := range n.accounts {
			n.holdings = append(n.holdings, ledgercore.AccountAsset{Address: a, Asset: tx.XferAsset})
		}
	case protocol.AssetFreezeTx:
		n.accounts = append(n.accounts, tx.FreezeAccount)
		n.assets = append(n.assets, tx.FreezeAsset)
		n.holdings = append(n.holdings, ledgercore.AccountAsset{Address: tx.FreezeAccount, Asset: tx.FreezeAsset})
	case protocol.ApplicationCallTx:
		if tx.ApplicationID != 0 {
			n.apps = append(n.apps, tx.ApplicationID)
		}
		if tx.Access != nil {
			for _, rr := range tx.Access {
				switch {
				case !rr.Address.IsZero():
					n.accounts = append(n.accounts, rr.Address)
				case rr.Asset != 0:
					n.assets = append(n.assets, rr.Asset)
				case rr.App != 0:
					n.apps = append(n.apps, rr.App)
				}
			}
			if tx.ApplicationID != 0 {
				n.locals = append(n.locals, ledgercore.AccountApp{Address: tx.Sender, App: tx.ApplicationID})
			}
			for _, rr := range tx.Access {
				if rr.Holding.Asset != 0 { // 1-based positions in the list; 0 address = sender
					a := tx.Sender
					if rr.Holding.Address != 0 {
						a = tx.Access[rr.Holding.Address-1].Address
					}
					n.holdings = append(n.holdings, ledgercore.AccountAsset{Address: a, Asset: tx.Access[rr.Holding.Asset-1].Asset})
				}
				if rr.Locals.App != 0 || rr.Locals.Address != 0 {
					a := tx.Sender
					if rr.Locals.Address != 0 {
						a = tx.Access[rr.Locals.Address-1].Address
					}
					p := tx.ApplicationID
					if rr.Locals.App != 0 {
						p = tx.Access[rr.Locals.App-1].App
					}
					n.locals = append(n.locals, ledgercore.AccountApp{Address: a, App: p})
				}
			}
			return n
		}
		n.accounts = append(n.accounts, tx.Accounts...)
		if tx.ApplicationID != 0 {
			n.accounts = append(n.accounts, verifC35AppAddr(tx.ApplicationID))
		}
		for _, p := range tx.ForeignApps {
			n.accounts = append(n.accounts, verifC35AppAddr(p))
			n.apps = append(n.apps, p)
		}
		n.assets = append(n.assets, tx.ForeignAssets...)
		for _, a := range n.accounts {
			for _, x := range n.assets {
				n.holdings = append(n.holdings, ledgercore.AccountAsset{Address: a, Asset: x})
			}
			for _, p := range n.apps {
				n.locals = append(n.locals, ledgercore.AccountApp{Address: a, App: p})
			}
		}
	}
	return n
}

type verifC35Oracle struct {
	v           uint64
	cur         basics.AppIndex
	forbidLow   bool
	own         *transactions.Transaction
	names       []*verifC35Names // per transaction of the group
	createdApps []basics.AppIndex
	createdAsas []basics.AssetIndex
}

func verifC35OracleOf(s *verifC35Scenario) *verifC35Oracle {
	o := &verifC35Oracle{v: s.cx.version, cur: s.cx.appID, forbidLow: s.cx.Proto.AppForbidLowResources,
		own: &s.group[0].Txn, createdApps: s.createdApps, createdAsas: s.createdAsas}
	for i := range s.group {
		o.names = append(o.names, verifC35NamesOf(&s.group[i].Txn))
	}
	return o
}

func (o *verifC35Oracle) account(a basics.Address) bool {
	ok := a == o.own.Sender || a == verifC35AppAddr(o.cur)
	for _, x := range o.own.Accounts {
		ok = ok || x == a
	}
	for _, rr := range o.own.Access {
		ok = ok || (!rr.Address.IsZero() && rr.Address == a)
	}
	if o.v >= verifC35VAppAddr {
		for _, p := range o.own.ForeignApps {
			ok = ok || verifC35AppAddr(p) == a
		}
	}
	if o.v >= verifC35VCreated {
		ok = ok || o.createdAppAccount(a)
	}
	if o.v >= verifC35VSharing {
		for _, n := range o.names {
			for _, x := range n.accounts {
				ok = ok || x == a
			}
		}
	}
	return ok
}

func (o *verifC35Oracle) createdAppAccount(a basics.Address) bool {
	ok := false
	for _, p := range o.createdApps {
		ok = ok || verifC35AppAddr(p) == a
	}
	return ok
}

func (o *verifC35Oracle) createdApp(p basics.AppIndex) bool {
	ok := false
	for _, c := range o.createdApps {
		ok = ok || c == p
	}
	return ok
}

func (o *verifC35Oracle) createdAsa(x basics.AssetIndex) bool {
	ok := false
	for _, c := range o.createdAsas {
		ok = ok || c == x
	}
	return ok
}

func (o *verifC35Oracle) asset(x basics.AssetIndex) bool {
	ok := false
	for _, y := range o.own.ForeignAssets {
		ok = ok || y == x
	}
	for _, rr := range o.own.Access {
		ok = ok || (rr.Asset != 0 && rr.Asset == x)
	}
	if o.v >= verifC35VCreated {
		ok = ok || o.createdAsa(x)
	}
	if o.v >= verifC35VSharing {
		for _, n := range o.names {
			for _, y := range n.assets {
				ok = ok || y == x
			}
		}
	}
	return ok
}

func (o *verifC35Oracle) app(p basics.AppIndex) bool {
	ok := p == o.cur
	for _, y := range o.own.ForeignApps {
		ok = ok || y == p
	}
	for _, rr := range o.own.Access {
		ok = ok || (rr.App != 0 && rr.App == p)
	}
	if o.v >= verifC35VCreated {
		ok = ok || o.createdApp(p)
	}
	if o.v >= verifC35VSharing {
		for _, n := range o.names {
			for _, y := range n.apps {
				ok = ok || y == p
			}
		}
	}
	return ok
}

func (o *verifC35Oracle) holding(a basics.Address, x basics.AssetIndex) bool {
	if o.v < verifC35VSharing {
		return o.account(a) && o.asset(x)
	}
	ok := false
	for _, n := range o.names {
		for _, h := range n.holdings {
			ok = ok || (h.Address == a && h.Asset == x)
		}
	}
	ok = ok || (o.createdAsa(x) && o.account(a))
	ok = ok || (o.createdAppAccount(a) && o.asset(x))
	return ok
}

func (o *verifC35Oracle) local(a basics.Address, p basics.AppIndex) bool {
	if o.v < verifC35VSharing {
		return o.account(a) && o.app(p)
	}
	ok := false
	for _, n := range o.names {
		for _, l := range n.locals {
			ok = ok || (l.Address == a && l.App == p)
		}
	}
	ok = ok || (o.createdApp(p) && o.account(a))
	ok = ok || (o.createdAppAccount(a) && o.app(p))
	return ok
}

func (o *verifC35Oracle) idUsable(id uint64) bool { return !o.forbidLow || id > 255 }

// ---------------------------------------------------------------- queries

// The address a program asks for: any address that can occur anywhere in the
// scenario (plain accounts, app accounts of pool apps), the zero address, or an
// address that occurs nowhere (plain account 0x77).
//
// Domain restriction (tx.Access scenarios only): the ZERO address and the ids 0
// are not asked for. With tx.Access the code treats them as available as soon as
// the list has an entry of another kind (IndexByAddress / availableAsset /
// availableApp compare the empty Address / Asset / App field of such an entry
// with the operand). Id 0 names no asset or app, so nothing is reached through
// it; the zero address IS an account: that deviation is isolated in
// VerifC35ZeroAddressAccess and excluded everywhere else.
func verifC35QueryAddr(s *verifC35Scenario) basics.Address {
	a := verifC35AnyAddr()
	if s.access {
		vr.Assume(!a.IsZero())
	}
	return a
}

func verifC35QueryID(s *verifC35Scenario, label string) uint64 {
	ref := vr.U64(label)
	if s.access {
		vr.Assume(ref != 0)
	}
	return ref
}

func verifC35AnyAddr() basics.Address {
	k := vr.U8("query.addr")
	vr.Assume(k < verifC35Plain+verifC35IDs+2)
	if k == verifC35Plain+verifC35IDs {
		return basics.Address{}
	}
	if k == verifC35Plain+verifC35IDs+1 {
		return verifC35PlainAddr(0x77)
	}
	if k < verifC35Plain {
		return verifC35PlainAddr(k)
	}
	return verifC35AppAddr(basics.AppIndex(verifC35IDBase + 2*uint64(k-verifC35Plain)))
}

// ---------------------------------------------------------------- checks

// the account operand of an opcode: the 32 byte address, or (slot scenarios) a number
func verifC35Operand(s *verifC35Scenario, a basics.Address) stackValue {
	if s.bySlot {
		return stackValue{Uint: vr.U64("query.slot")}
	}
	return stackValue{Bytes: a[:]}
}

// (functions, not package variables: touching a package variable would make the
// engine run the whole package initializer - the opcode tables - first)
func verifC35TxnKinds() []int {
	return []int{verifC35KindPay, verifC35KindKeyreg, verifC35KindAcfg, verifC35KindAxfer, verifC35KindAfrz}
}

func verifC35ApplKinds() []int { return []int{verifC35KindApplArrays, verifC35KindApplAccess} }

func verifC35Alone() []int { return []int{verifC35KindNone} }

func verifC35InAccounts(tx *transactions.Transaction, a basics.Address) bool {
	ok := a == tx.Sender
	for _, x := range tx.Accounts {
		ok = ok || x == a
	}
	for _, rr := range tx.Access {
		ok = ok || (!rr.Address.IsZero() && rr.Address == a)
	}
	return ok
}

// accounts: availableAccount (exactly the oracle), accountReference,
// assignAccount, mutableAccountReference on an arbitrary operand
func verifC35CheckAccounts(s *verifC35Scenario) {
	o := verifC35OracleOf(s)
	cx := s.cx
	a := verifC35QueryAddr(s)
	if cx.availableAccount(a) {
		vr.Reach("granted")
		vr.Assert("c35.account.available-only-if-named", o.account(a))
	} else {
		vr.Reach("denied")
		vr.Assert("c35.account.named-is-available", !o.account(a))
	}
	if got, err := cx.assignAccount(stackValue{Bytes: a[:]}); err == nil {
		vr.Assert("c35.account.assign", got == a && o.account(a))
	}
	operand := verifC35Operand(s, a)
	if got, idx, err := cx.accountReference(operand); err == nil {
		vr.Reach("resolved")
		vr.Assert("c35.account.reference", o.account(got))
		vr.Assert("c35.account.reference-is-operand", operand.Bytes == nil || got == a)
	} else {
		_ = idx
	}
	if got, _, err := cx.mutableAccountReference(operand); err == nil {
		vr.Assert("c35.account.mutable-reference", o.account(got))
		// before sharing, local state changes are recorded by the account's
		// position in [Sender, Accounts...]: nothing else may be written
		vr.Assert("c35.account.mutable-pre-sharing-in-txn", cx.version >= verifC35VSharing || verifC35InAccounts(o.own, got))
	}
	vr.Reach("done")
}

func verifC35CheckAssets(s *verifC35Scenario) {
	o := verifC35OracleOf(s)
	cx := s.cx
	ref := verifC35QueryID(s, "query.asset")
	x := basics.AssetIndex(ref)
	if cx.availableAsset(x) {
		vr.Reach("granted")
		vr.Assert("c35.asset.available-only-if-named", o.asset(x))
	} else {
		vr.Reach("denied")
		vr.Assert("c35.asset.named-is-available", !o.asset(x))
	}
	if got, err := cx.assignAsset(stackValue{Uint: ref}); err == nil {
		vr.Assert("c35.asset.assign", got == x && o.asset(x))
	}
	// ref may be an id or a slot of the foreign array / access list
	if got, err := cx.resolveAsset(ref); err == nil {
		vr.Reach("resolved")
		vr.Assert("c35.asset.resolve", o.asset(got))
		vr.Assert("c35.asset.resolve-low", o.idUsable(uint64(got)))
	}
	if got, err := cx.assetReference(ref, vr.Bool("query.foreign")); err == nil {
		vr.Assert("c35.asset.reference", o.asset(got))
		vr.Assert("c35.asset.reference-low", o.idUsable(uint64(got)))
	}
	vr.Reach("done")
}

func verifC35CheckApps(s *verifC35Scenario) {
	o := verifC35OracleOf(s)
	cx := s.cx
	ref := verifC35QueryID(s, "query.app")
	p := basics.AppIndex(ref)
	if cx.availableApp(p) {
		vr.Reach("granted")
		vr.Assert("c35.app.available-only-if-named", o.app(p))
	} else {
		vr.Reach("denied")
		vr.Assert("c35.app.named-is-available", !o.app(p))
	}
	if got, err := cx.assignApp(stackValue{Uint: ref}); err == nil {
		vr.Assert("c35.app.assign", got == p && o.app(p))
	}
	if got, err := cx.resolveApp(ref); err == nil {
		vr.Reach("resolved")
		vr.Assert("c35.app.resolve", o.app(got))
		vr.Assert("c35.app.resolve-low", o.idUsable(uint64(got)))
	}
	if got, err := cx.appReference(ref, vr.Bool("query.foreign")); err == nil {
		vr.Assert("c35.app.reference", o.app(got))
		vr.Assert("c35.app.reference-low", o.idUsable(uint64(got)))
	}
	vr.Reach("done")
}

func verifC35CheckHoldings(s *verifC35Scenario) {
	o := verifC35OracleOf(s)
	cx := s.cx
	a := verifC35QueryAddr(s)
	ref := verifC35QueryID(s, "query.asset")
	x := basics.AssetIndex(ref)
	if cx.version >= verifC35VSharing { // allowsHolding is only consulted from the sharing version on
		if cx.allowsHolding(a, x) {
			vr.Reach("granted")
			vr.Assert("c35.holding.allowed-only-if-named", o.holding(a, x))
		} else {
			vr.Reach("denied")
			vr.Assert("c35.holding.named-is-allowed", !o.holding(a, x))
		}
		if cx.requireHolding(a, x) == nil {
			// 0 fields of an inner transaction are "not set" and need nothing
			vr.Assert("c35.holding.require", x == 0 || a.IsZero() || o.holding(a, x))
		}
	} else {
		vr.Reach("granted")
		vr.Reach("denied")
	}
	operand := verifC35Operand(s, a)
	if ga, gx, err := cx.holdingReference(operand, ref); err == nil {
		vr.Reach("resolved")
		vr.Assert("c35.holding.reference", o.holding(ga, gx))
		vr.Assert("c35.holding.reference-parts", o.account(ga) && o.asset(gx))
		vr.Assert("c35.holding.reference-low", o.idUsable(uint64(gx)))
		vr.Assert("c35.holding.reference-is-operand", operand.Bytes == nil || ga == a)
	}
	vr.Reach("done")
}

func verifC35CheckLocals(s *verifC35Scenario) {
	o := verifC35OracleOf(s)
	cx := s.cx
	a := verifC35QueryAddr(s)
	ref := verifC35QueryID(s, "query.app")
	p := basics.AppIndex(ref)
	if cx.version >= verifC35VSharing {
		if cx.allowsLocals(a, p) {
			vr.Reach("granted")
			vr.Assert("c35.locals.allowed-only-if-named", o.local(a, p))
		} else {
			vr.Reach("denied")
			vr.Assert("c35.locals.named-is-allowed", !o.local(a, p))
		}
		if cx.requireLocals(a, p) == nil {
			vr.Assert("c35.locals.require", o.local(a, p))
		}
	} else {
		vr.Reach("granted")
		vr.Reach("denied")
	}
	operand := verifC35Operand(s, a)
	if ga, gp, _, err := cx.localsReference(operand, ref); err == nil {
		vr.Reach("resolved")
		vr.Assert("c35.locals.reference", o.local(ga, gp))
		vr.Assert("c35.locals.reference-parts", o.account(ga) && o.app(gp))
		vr.Assert("c35.locals.reference-low", o.idUsable(uint64(gp)))
		vr.Assert("c35.locals.reference-is-operand", operand.Bytes == nil || ga == a)
	}
	vr.Reach("done")
}

// ---------------------------------------------------------------- harnesses
//
// "Own": the app call alone in its group; every program version >= 4; app
//        creation and resources created earlier in the group.
// "Access": the same with tx.Access instead of the foreign arrays (v >= 9).
// "Shared": a second transaction of any kind; versions 7..10 (around the
//        sharing version 9); transaction 0's own references are picked too.
// "Slots": account operands given as slot numbers.

//verif:stub (github.com/algorand/go-algorand/data/basics.AppIndex).Address = verifC35AppAddr

//verif:harness prop=C35 reach=done,granted,denied,resolved unwind=80 budget=900 thorough.budget=1500
func VerifC35AccountOwn() {
	verifC35CheckAccounts(verifC35Build(verifC35Opts{nacc: vr.Param(1, 2), napp: 1, kinds: verifC35Alone(),
		minV: verifC35VDirect, maxV: LogicVersion, createApp: true}))
}

//verif:harness prop=C35 reach=done,granted,denied,resolved unwind=80 budget=900 thorough.budget=1500
func VerifC35AssetOwn() {
	verifC35CheckAssets(verifC35Build(verifC35Opts{nasa: 2, kinds: verifC35Alone(),
		minV: verifC35VDirect, maxV: LogicVersion, createAsa: true}))
}

//verif:harness prop=C35 reach=done,granted,denied,resolved unwind=80 budget=900 thorough.budget=1500
func VerifC35AppOwn() {
	verifC35CheckApps(verifC35Build(verifC35Opts{napp: 2, kinds: verifC35Alone(),
		minV: verifC35VDirect, maxV: LogicVersion, createApp: true}))
}

//verif:harness prop=C35 reach=done,granted,denied,resolved unwind=80 budget=280 thorough.budget=1500
func VerifC35HoldingOwnCall() {
	verifC35CheckHoldings(verifC35Build(verifC35Opts{nacc: 1, nasa: 1, napp: vr.Param(0, 1), createAsa: true, kinds: verifC35Alone(),
		minV: verifC35VDirect, maxV: LogicVersion, createApp: true, mode: 1}))
}

//verif:harness prop=C35 reach=done,granted,denied,resolved unwind=80 budget=280 thorough.budget=1500
func VerifC35HoldingOwnCreate() {
	verifC35CheckHoldings(verifC35Build(verifC35Opts{nacc: 1, nasa: 1, napp: vr.Param(0, 1), createAsa: true, kinds: verifC35Alone(),
		minV: verifC35VDirect, maxV: LogicVersion, createApp: true, mode: 2}))
}

//verif:harness prop=C35 reach=done,granted,denied,resolved unwind=80 budget=280 thorough.budget=1500
func VerifC35HoldingOwnAfterCreate() {
	verifC35CheckHoldings(verifC35Build(verifC35Opts{nacc: 1, nasa: 1, napp: vr.Param(0, 1), createAsa: true, kinds: verifC35Alone(),
		minV: verifC35VDirect, maxV: LogicVersion, createApp: true, mode: 3}))
}

//verif:harness prop=C35 reach=done,granted,denied,resolved unwind=80 budget=280 thorough.budget=1500
func VerifC35LocalsOwnCall() {
	verifC35CheckLocals(verifC35Build(verifC35Opts{nacc: 1, napp: 1, kinds: verifC35Alone(),
		minV: verifC35VDirect, maxV: LogicVersion, createApp: true, mode: 1}))
}

//verif:harness prop=C35 reach=done,granted,denied,resolved unwind=80 budget=280 thorough.budget=1500
func VerifC35LocalsOwnCreate() {
	verifC35CheckLocals(verifC35Build(verifC35Opts{nacc: 1, napp: 1, kinds: verifC35Alone(),
		minV: verifC35VDirect, maxV: LogicVersion, createApp: true, mode: 2}))
}

//verif:harness prop=C35 reach=done,granted,denied,resolved unwind=80 budget=280 thorough.budget=1500
func VerifC35LocalsOwnAfterCreate() {
	verifC35CheckLocals(verifC35Build(verifC35Opts{nacc: 1, napp: 1, kinds: verifC35Alone(),
		minV: verifC35VDirect, maxV: LogicVersion, createApp: true, mode: 3}))
}

// tx.Access instead of foreign arrays (program version >= 9 only). The zero
// address / id 0 are excluded from the operands here (see verifC35QueryAddr).

//verif:harness prop=C35 reach=done,granted,denied,resolved unwind=80 budget=280 thorough.budget=1500
func VerifC35AccountAccess() {
	verifC35CheckAccounts(verifC35Build(verifC35Opts{access: true, nacc: 1, napp: 1, createApp: true, kinds: verifC35Alone(),
		minV: verifC35VSharing, maxV: LogicVersion}))
}

//verif:harness prop=C35 reach=done,granted,denied,resolved unwind=80 budget=280 thorough.budget=1500
func VerifC35AssetAccess() {
	verifC35CheckAssets(verifC35Build(verifC35Opts{access: true, nacc: 1, nasa: 2, createAsa: true, kinds: verifC35Alone(),
		minV: verifC35VSharing, maxV: LogicVersion}))
}

//verif:harness prop=C35 reach=done,granted,denied,resolved unwind=80 budget=280 thorough.budget=1500
func VerifC35AppAccess() {
	verifC35CheckApps(verifC35Build(verifC35Opts{access: true, nacc: 1, napp: 2, createApp: true, kinds: verifC35Alone(),
		minV: verifC35VSharing, maxV: LogicVersion}))
}

//verif:harness prop=C35 reach=done,granted,denied,resolved unwind=80 budget=280 thorough.budget=1500
func VerifC35HoldingAccess() {
	verifC35CheckHoldings(verifC35Build(verifC35Opts{access: true, nacc: 1, nasa: 1, napp: vr.Param(0, 1), kinds: verifC35Alone(),
		minV: verifC35VSharing, maxV: LogicVersion}))
}

//verif:harness prop=C35 reach=done,granted,denied,resolved unwind=80 budget=280 thorough.budget=1500
func VerifC35LocalsAccess() {
	verifC35CheckLocals(verifC35Build(verifC35Opts{access: true, nacc: 1, nasa: vr.Param(0, 1), napp: 1, kinds: verifC35Alone(),
		minV: verifC35VSharing, maxV: LogicVersion}))
}

// The deviation found by the harnesses above, isolated: with tx.Access, the ZERO
// address is treated as available although nothing names it, as soon as the
// list holds an entry that is not an address (its empty Address field equals the
// zero address in ApplicationCallTxnFields.IndexByAddress). EXPECTED TO FAIL on
// the unchanged tree (finding, tag c35.zero-address.available-only-if-named).
//
//verif:harness prop=C35 reach=done unwind=80 budget=280 thorough.budget=1500
func VerifC35ZeroAddressAccess() {
	s := verifC35Build(verifC35Opts{access: true, concrete0: true, nacc: 1, nasa: vr.Choice("t.nasa", 2), kinds: verifC35Alone(),
		minV: verifC35VSharing, maxV: LogicVersion})
	o := verifC35OracleOf(s)
	var zero basics.Address
	vr.Assert("c35.zero-address.available-only-if-named", !s.cx.availableAccount(zero) || o.account(zero))
	_, _, err := s.cx.accountReference(stackValue{Bytes: zero[:]})
	vr.Assert("c35.zero-address.reference-only-if-named", err != nil || o.account(zero))
	vr.Reach("done")
}

// a second transaction in the group; versions around the sharing version;
// transaction 0's own references are fixed (1 account / asset / app), the other
// transaction's fields range over everything incl. those. "Txn": the other is
// pay / keyreg / acfg / axfer / afrz; "Appl": an app call with arrays or tx.Access.

//verif:harness prop=C35 reach=done,granted,denied,resolved unwind=80 budget=280 thorough.budget=1500
func VerifC35AccountSharedTxn() {
	verifC35CheckAccounts(verifC35Build(verifC35Opts{concrete0: true, nacc: 1, napp: 1, fAcct: true, fApp: true, fOpt: true, kinds: verifC35TxnKinds(),
		minV: verifC35VAppAddr, maxV: verifC35VSharing + 1}))
}

//verif:harness prop=C35 reach=done,granted,denied,resolved unwind=80 budget=280 thorough.budget=1500
func VerifC35AccountSharedAppl() {
	verifC35CheckAccounts(verifC35Build(verifC35Opts{concrete0: true, nacc: 1, napp: 1, fAcct: true, fApp: true, kinds: verifC35ApplKinds(),
		minV: verifC35VAppAddr, maxV: verifC35VSharing + 1}))
}

//verif:harness prop=C35 reach=done,granted,denied,resolved unwind=80 budget=280 thorough.budget=1500
func VerifC35AssetSharedTxn() {
	verifC35CheckAssets(verifC35Build(verifC35Opts{concrete0: true, nasa: 1, fAsa: true, kinds: verifC35TxnKinds(),
		minV: verifC35VAppAddr, maxV: verifC35VSharing + 1}))
}

//verif:harness prop=C35 reach=done,granted,denied,resolved unwind=80 budget=280 thorough.budget=1500
func VerifC35AssetSharedAppl() {
	verifC35CheckAssets(verifC35Build(verifC35Opts{concrete0: true, nasa: 1, fAsa: true, kinds: verifC35ApplKinds(),
		minV: verifC35VAppAddr, maxV: verifC35VSharing + 1}))
}

//verif:harness prop=C35 reach=done,granted,denied,resolved unwind=80 budget=280 thorough.budget=1500
func VerifC35AppSharedTxn() {
	verifC35CheckApps(verifC35Build(verifC35Opts{concrete0: true, napp: 1, fApp: true, kinds: verifC35TxnKinds(),
		minV: verifC35VAppAddr, maxV: verifC35VSharing + 1}))
}

//verif:harness prop=C35 reach=done,granted,denied,resolved unwind=80 budget=280 thorough.budget=1500
func VerifC35AppSharedAppl() {
	verifC35CheckApps(verifC35Build(verifC35Opts{concrete0: true, napp: 1, fApp: true, kinds: verifC35ApplKinds(),
		minV: verifC35VAppAddr, maxV: verifC35VSharing + 1}))
}

//verif:harness prop=C35 reach=done,granted,denied,resolved unwind=80 budget=280 thorough.budget=1500
func VerifC35HoldingSharedTxn() {
	verifC35CheckHoldings(verifC35Build(verifC35Opts{concrete0: true, nacc: 1, nasa: 1, fAcct: true, fAsa: true, kinds: verifC35TxnKinds(),
		minV: verifC35VAppAddr, maxV: verifC35VSharing + 1}))
}

//verif:harness prop=C35 reach=done,granted,denied,resolved unwind=80 budget=280 thorough.budget=1500
func VerifC35HoldingSharedAppl() {
	verifC35CheckHoldings(verifC35Build(verifC35Opts{concrete0: true, nacc: 1, nasa: 1, fAcct: true, fAsa: true, kinds: verifC35ApplKinds(),
		minV: verifC35VSharing, maxV: verifC35VSharing + 1}))
}

//verif:harness prop=C35 reach=done,granted,denied,resolved unwind=80 budget=280 thorough.budget=1500
func VerifC35LocalsSharedTxn() {
	verifC35CheckLocals(verifC35Build(verifC35Opts{concrete0: true, nacc: 1, napp: 1, fAcct: true, kinds: verifC35TxnKinds(),
		minV: verifC35VAppAddr, maxV: verifC35VSharing + 1}))
}

//verif:harness prop=C35 reach=done,granted,denied,resolved unwind=80 budget=280 thorough.budget=1500
func VerifC35LocalsSharedApplArrays() {
	verifC35CheckLocals(verifC35Build(verifC35Opts{concrete0: true, nacc: 1, napp: 1, fAcct: true, fApp: true, kinds: []int{verifC35KindApplArrays},
		minV: verifC35VSharing, maxV: verifC35VSharing + 1}))
}

//verif:harness prop=C35 reach=done,granted,denied,resolved unwind=80 budget=280 thorough.budget=1500
func VerifC35LocalsSharedApplAccess() {
	verifC35CheckLocals(verifC35Build(verifC35Opts{concrete0: true, nacc: 1, napp: 1, fAcct: true, fApp: true, kinds: []int{verifC35KindApplAccess},
		minV: verifC35VSharing, maxV: verifC35VSharing + 1}))
}

// account operands given as slot numbers (0 = Sender, i = Accounts[i-1] / Access[i-1])

//verif:harness prop=C35 reach=done,granted,denied,resolved unwind=80 budget=280 thorough.budget=1500
func VerifC35AccountSlots() {
	verifC35CheckAccounts(verifC35Build(verifC35Opts{bySlot: true, concrete0: true, access: vr.Bool("t.access"), nacc: 2, napp: 1, kinds: verifC35Alone(),
		minV: verifC35VDirect, maxV: LogicVersion}))
}

//verif:harness prop=C35 reach=done,granted,denied,resolved unwind=80 budget=280 thorough.budget=1500
func VerifC35HoldingSlots() {
	verifC35CheckHoldings(verifC35Build(verifC35Opts{bySlot: true, concrete0: true, access: vr.Bool("t.access"), nacc: 2, nasa: 1, kinds: verifC35Alone(),
		minV: verifC35VDirect, maxV: LogicVersion}))
}

//verif:harness prop=C35 reach=done,granted,denied,resolved unwind=80 budget=280 thorough.budget=1500
func VerifC35LocalsSlots() {
	verifC35CheckLocals(verifC35Build(verifC35Opts{bySlot: true, concrete0: true, access: vr.Bool("t.access"), nacc: 2, napp: 1, kinds: verifC35Alone(),
		minV: verifC35VDirect, maxV: LogicVersion}))
}
