//go:build verif

package logic

import (
	vr "github.com/algorand/go-algorand/internal/verifrt"
)

// C31 / C34 (dynamic): one EvalContext.step() of EVERY opcode of the real
// dispatch table, in signature mode, on symbolic stack contents and symbolic
// immediate bytes.
//
//   - any Go panic inside step() is a violation (evaluation must end in an
//     error, never an internal crash; eval()'s recover must never fire);
//   - the ledger is nil: a signature-mode step that reached ledger code would
//     dereference it, so "no panic" also decides that no opcode available in
//     signature mode touches ledger state (C34);
//   - after a successful step: cost <= budget, stack depth <= maxStackDepth,
//     every byte string on the stack <= maxStringSize, pc stays inside the program
//     or moves to a legal branch target.
//
// Opcodes are split over several harness functions so they run in parallel.
// Not executed (stated): opcodes whose implementation is cgo / a very large
// pure-Go field library (ed25519verify*, ecdsa_*, vrf_verify, falcon_verify,
// ec_* pairing ops, mimc, sumhash512) and bzero-style ops whose allocation size
// is an operand are given small operands.

func verifC31Step(lo, hi int) {
	version := uint64(LogicVersion)
	op := lo + vr.Choice("opcode", hi-lo)
	spec := &opsByOpcode[version][op]
	if spec.op == nil || spec.SubOps != nil || verifC31Skip[spec.Name] {
		vr.Reach("done")
		return
	}
	// program: version byte, opcode, then symbolic immediates / following bytes
	prog := make([]byte, 2+vr.Param(3, 4))
	prog[0] = byte(version)
	prog[1] = byte(op)
	vr.Fill("imm", prog[2:])
	cx := verifC31Context(version, prog)
	labels := []string{"s0", "s1", "s2", "s3", "s4"}
	for i, t := range spec.Arg.Types {
		if i < len(labels) {
			cx.Stack = append(cx.Stack, verifC31Operand(t, labels[i]))
		}
	}
	// ops that allocate or loop by an operand: keep that operand small (stated bound)
	switch spec.Name {
	case "bzero", "dupn", "popn", "exp", "expw", "bsqrt", "sqrt":
		if n := len(cx.Stack); n > 0 && cx.Stack[n-1].Bytes == nil {
			vr.Assume(cx.Stack[n-1].Uint <= 4)
		}
		vr.Assume(prog[2] <= 4)
	}
	budget := cx.remainingBudget()
	err := cx.step() // any panic in here is a violation
	vr.Reach("stepped")
	if err == nil {
		vr.Assert("c31.cost-within-budget", cx.cost <= budget)
		vr.Assert("c31.stack-depth", len(cx.Stack) <= maxStackDepth)
		for i := range cx.Stack {
			vr.Assert("c31.string-size", len(cx.Stack[i].Bytes) <= maxStringSize)
		}
		vr.Assert("c31.pc-in-program", cx.pc >= 0 && cx.pc <= len(prog))
		// the step was allowed in signature mode: the opcode's mode mask says so
		vr.Assert("c34.sigmode-allowed", spec.Modes&ModeSig != 0)
	}
	vr.Reach("done")
}

//verif:harness prop=C31 reach=done unwind=70 values=300 budget=400 thorough.budget=2400
func VerifC31Step00() { verifC31Step(0x00, 0x10) }

//verif:harness prop=C31 reach=done unwind=70 values=300 budget=400 thorough.budget=2400
func VerifC31Step10() { verifC31Step(0x10, 0x20) }

//verif:harness prop=C31 reach=done unwind=70 values=300 budget=400 thorough.budget=2400
func VerifC31Step20() { verifC31Step(0x20, 0x30) }

//verif:harness prop=C31 reach=done unwind=70 values=300 budget=400 thorough.budget=2400
func VerifC31Step30() { verifC31Step(0x30, 0x40) }

//verif:harness prop=C31 reach=done unwind=70 values=300 budget=400 thorough.budget=2400
func VerifC31Step40() { verifC31Step(0x40, 0x50) }

//verif:harness prop=C31 reach=done unwind=70 values=300 budget=400 thorough.budget=9000
func VerifC31Step50() { verifC31Step(0x50, 0x60) }

//verif:harness prop=C31 reach=done unwind=70 values=300 budget=400 thorough.budget=2400
func VerifC31Step60() { verifC31Step(0x60, 0x70) }

//verif:harness prop=C31 reach=done unwind=70 values=300 budget=400 thorough.budget=2400
func VerifC31Step70() { verifC31Step(0x70, 0x80) }

//verif:harness prop=C31 reach=done unwind=70 values=300 budget=400 thorough.budget=2400
func VerifC31Step80() { verifC31Step(0x80, 0x90) }

//verif:harness prop=C31 reach=done unwind=70 values=300 budget=400 thorough.budget=2400
func VerifC31Step90() { verifC31Step(0x90, 0xa0) }

//verif:harness prop=C31 reach=done unwind=70 values=300 budget=400 thorough.budget=2400
func VerifC31StepA0() { verifC31Step(0xa0, 0xb0) }

//verif:harness prop=C31 reach=done unwind=70 values=300 budget=400 thorough.budget=2400
func VerifC31StepB0() { verifC31Step(0xb0, 0xc0) }

//verif:harness prop=C31 reach=done unwind=70 values=300 budget=400 thorough.budget=2400
func VerifC31StepC0() { verifC31Step(0xc0, 0xd0) }

//verif:harness prop=C31 reach=done unwind=70 values=300 budget=400 thorough.budget=2400
func VerifC31StepD0() { verifC31Step(0xd0, 0xe0) }

//verif:harness prop=C31 reach=done unwind=70 values=300 budget=400 thorough.budget=2400
func VerifC31StepE0() { verifC31Step(0xe0, 0xf0) }

//verif:harness prop=C31 reach=done unwind=70 values=300 budget=400 thorough.budget=2400
func VerifC31StepF0() { verifC31Step(0xf0, 0x100) }
