//go:build verif

package logic

import (
	vr "github.com/algorand/go-algorand/internal/verifrt"
)

// C34 (table level): programs cannot use opcodes newer than their version, and
// signature mode excludes every opcode that touches the ledger.
//
// The per-version dispatch tables are built by the package's real init()
// (executed by the engine from the current tree). Their version / mode /
// presence columns are copied into plain arrays and then queried with a
// SYMBOLIC (version, opcode) pair, so the solver decides the statement for all
// 15 x 256 table cells at once.

//verif:harness prop=C34 reach=done,present,absent unwind=300 steps=80000000
func VerifC34TableVersions() {
	var present [LogicVersion + 1][256]bool
	var introduced [LogicVersion + 1][256]uint64
	for v := 0; v <= LogicVersion; v++ {
		for op := 0; op < 256; op++ {
			spec := &opsByOpcode[v][op]
			present[v][op] = spec.op != nil
			introduced[v][op] = spec.Version
		}
	}
	v := vr.U8("version")
	op := vr.U8("opcode")
	vr.Assume(v <= LogicVersion)
	if present[v][op] {
		vr.Reach("present")
		// an opcode dispatched at version v was introduced at or before v
		vr.Assert("c34.table.not-newer-than-version", introduced[v][op] <= uint64(v))
		// and stays available in every later version (the AVM never retires an opcode)
		if v < LogicVersion {
			vr.Assert("c34.table.monotone", present[v+1][op])
		}
	} else {
		vr.Reach("absent")
	}
	vr.Reach("done")
}
