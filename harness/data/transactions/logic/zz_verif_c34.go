//go:build verif

package logic

import (
	vr "github.com/algorand/go-algorand/internal/verifrt"
)

// C34 (table level): programs cannot use opcodes newer than their version, and
// signature mode excludes every opcode that touches the ledger.
//
// The per-version dispatch tables are built by the package's real init()
// (executed by the engine from the current tree). Their version / mode /
// presence columns are copied into plain arrays and then queried with a
// SYMBOLIC (version, opcode) pair, so the solver decides the statement for all
// 15 x 256 table cells at once.

//verif:harness prop=C34 reach=done,present,absent unwind=300 steps=80000000
func VerifC34TableVersions() {
	var present [LogicVersion + 1][256]bool
	var introduced [LogicVersion + 1][256]uint64
	for v := 0; v <= LogicVersion; v++ {
		for op := 0; op < 256; op++ {
			spec := &opsByOpcode[v][op]
			present[v][op] = spec.op != nil
			introduced[v][op] = spec.Version
		}
	}
	v := vr.U8("version")
	op := vr.U8("opcode")
	vr.Assume(v <= LogicVersion)
	if present[v][op] {
		vr.Reach("present")
		// an opcode dispatched at version v was introduced at or before v
		vr.Assert("c34.table.not-newer-than-version", introduced[v][op] <= uint64(v))
		// and stays available in every later version (the AVM never retires an opcode)
		if v < LogicVersion {
			vr.Assert("c34.table.monotone", present[v+1][op])
		}
	} else {
		vr.Reach("absent")
	}
	vr.Reach("done")
}

// Ledger-touching opcodes (named here from the AVM specification, independently
// of the table's own mode column) are excluded from signature mode at every version.
var verifC34LedgerOps = map[string]bool{
	"balance": true, "min_balance": true, "app_opted_in": true, "app_local_get": true, "app_local_get_ex": true,
	"app_global_get": true, "app_global_get_ex": true, "app_local_put": true, "app_global_put": true,
	"app_local_del": true, "app_global_del": true, "asset_holding_get": true, "asset_params_get": true,
	"app_params_get": true, "acct_params_get": true, "voter_params_get": true, "online_stake": true,
	"log": true, "itxn_begin": true, "itxn_field": true, "itxn_submit": true, "itxn_next": true,
	"itxn": true, "itxna": true, "itxnas": true, "gitxn": true, "gitxna": true, "gitxnas": true,
	"box_create": true, "box_extract": true, "box_replace": true, "box_del": true, "box_len": true,
	"box_get": true, "box_put": true, "box_splice": true, "box_resize": true,
	"gload": true, "gloads": true, "gloadss": true, "gaid": true, "gaids": true,
}

//verif:harness prop=C34 reach=done,ledgerop unwind=300 steps=80000000
func VerifC34TableModes() {
	var isLedgerOp [LogicVersion + 1][256]bool
	var sigAllowed [LogicVersion + 1][256]bool
	seen := 0
	for v := 0; v <= LogicVersion; v++ {
		for op := 0; op < 256; op++ {
			spec := &opsByOpcode[v][op]
			if spec.op != nil && verifC34LedgerOps[spec.Name] {
				isLedgerOp[v][op] = true
				seen++
			}
			sigAllowed[v][op] = spec.op != nil && spec.Modes&ModeSig != 0
		}
	}
	vr.Assert("c34.modes.names-resolve", seen > 100) // the independent name list really matches table entries
	v := vr.U8("version")
	op := vr.U8("opcode")
	vr.Assume(v <= LogicVersion)
	if isLedgerOp[v][op] {
		vr.Reach("ledgerop")
		vr.Assert("c34.modes.ledger-op-not-in-sigmode", !sigAllowed[v][op])
	}
	vr.Reach("done")
}

// Static checking and execution agree: for every opcode, on the same symbolic
// immediate bytes, checkStep and step advance the pc identically, and every
// branch target that execution takes was marked as a legal target by the check.
var verifC34Branching = map[string]bool{"bnz": true, "bz": true, "b": true, "callsub": true, "switch": true, "match": true}
var verifC34NoFallthrough = map[string]bool{"retsub": true, "return": true, "err": true}

func verifC34Agree(lo, hi int) {
	version := uint64(LogicVersion)
	op := lo + vr.Choice("opcode", hi-lo)
	spec := &opsByOpcode[version][op]
	if spec.op == nil || spec.SubOps != nil || verifC31Skip[spec.Name] || verifC34NoFallthrough[spec.Name] {
		vr.Reach("done")
		return
	}
	if spec.OpDetails.check == nil && spec.OpDetails.Size != 0 {
		// fixed-size instruction without a check function: checkStep and step both
		// advance by the same table constant deets.Size, there is nothing to disagree on
		vr.Reach("done")
		return
	}
	prog := make([]byte, 2+vr.Param(3, 4))
	prog[0] = byte(version)
	prog[1] = byte(op)
	vr.Fill("imm", prog[2:])
	// static side
	cs := verifC31Context(version, prog)
	_, cerr := cs.checkStep()
	// dynamic side
	cx := verifC31Context(version, prog)
	labels := []string{"s0", "s1", "s2", "s3", "s4"}
	for i, t := range spec.Arg.Types {
		if i < len(labels) {
			cx.Stack = append(cx.Stack, verifC31Operand(t, labels[i]))
		}
	}
	switch spec.Name {
	case "bzero", "dupn", "popn":
		if n := len(cx.Stack); n > 0 && cx.Stack[n-1].Bytes == nil {
			vr.Assume(cx.Stack[n-1].Uint <= 4)
		}
		vr.Assume(prog[2] <= 4)
	}
	xerr := cx.step()
	if xerr == nil {
		vr.Reach("stepped")
		// anything that executes must have passed the static check. Branching
		// opcodes are exempt in this single-step setting: the check accepts a BACK
		// branch only if an earlier instruction's check recorded its target as an
		// instruction start (whole-program knowledge that one step does not have;
		// e.g. a branch back to pc 0, the version byte, is refused by the check).
		if !verifC34Branching[spec.Name] {
			vr.Assert("c34.agree.executes-implies-checks", cerr == nil)
		}
		if cerr == nil {
			if verifC34Branching[spec.Name] {
				ok := cx.pc == cs.pc
				if cx.pc >= 0 && cx.pc < len(cs.branchTargets) && cs.branchTargets[cx.pc] {
					ok = true
				}
				vr.Assert("c34.agree.branch-target-legal", ok)
			} else {
				vr.Assert("c34.agree.same-instruction-size", cx.pc == cs.pc)
			}
		}
	}
	vr.Reach("done")
}

//verif:harness prop=C34 reach=done unwind=70 values=300 budget=420 thorough.budget=2400 thorough.paths=400000
func VerifC34Agree00() { verifC34Agree(0x00, 0x30) }

//verif:harness prop=C34 reach=done unwind=70 values=300 budget=420 thorough.budget=2400 thorough.paths=400000
func VerifC34Agree30() { verifC34Agree(0x30, 0x34) }

//verif:harness prop=C34 reach=done unwind=70 values=300 budget=420 thorough.budget=2400 thorough.paths=400000
func VerifC34Agree34() { verifC34Agree(0x34, 0x38) }

//verif:harness prop=C34 reach=done unwind=70 values=300 budget=420 thorough.budget=2400 thorough.paths=400000
func VerifC34Agree38() { verifC34Agree(0x38, 0x40) }

//verif:harness prop=C34 reach=done unwind=70 values=300 budget=420 thorough.budget=2400 thorough.paths=400000
func VerifC34Agree40() { verifC34Agree(0x40, 0x50) }

//verif:harness prop=C34 reach=done unwind=70 values=300 budget=420 thorough.budget=2400 thorough.paths=400000
func VerifC34Agree50() { verifC34Agree(0x50, 0x58) }

//verif:harness prop=C34 reach=done unwind=70 values=300 budget=420 thorough.budget=2400 thorough.paths=400000
func VerifC34Agree58() { verifC34Agree(0x58, 0x60) }

//verif:harness prop=C34 reach=done unwind=70 values=300 budget=420 thorough.budget=2400 thorough.paths=400000
func VerifC34Agree60() { verifC34Agree(0x60, 0x80) }

//verif:harness prop=C34 reach=done unwind=70 values=300 budget=420 thorough.budget=2400 thorough.paths=400000
func VerifC34Agree80() { verifC34Agree(0x80, 0x82) }

//verif:harness prop=C34 reach=done unwind=70 values=300 budget=420 thorough.budget=2400 thorough.paths=400000
func VerifC34Agree82() { verifC34Agree(0x82, 0x84) }

//verif:harness prop=C34 reach=done unwind=70 values=300 budget=420 thorough.budget=2400 thorough.paths=400000
func VerifC34Agree84() { verifC34Agree(0x84, 0x8d) }

//verif:harness prop=C34 reach=done unwind=70 values=300 budget=420 thorough.budget=2400 thorough.paths=400000
func VerifC34Agree8D() { verifC34Agree(0x8d, 0x8e) }

//verif:harness prop=C34 reach=done unwind=70 values=300 budget=420 thorough.budget=2400 thorough.paths=400000
func VerifC34Agree8E() { verifC34Agree(0x8e, 0x90) }

//verif:harness prop=C34 reach=done unwind=70 values=300 budget=420 thorough.budget=2400 thorough.paths=400000
func VerifC34Agree90() { verifC34Agree(0x90, 0xc0) }

//verif:harness prop=C34 reach=done unwind=70 values=300 budget=420 thorough.budget=2400 thorough.paths=400000
func VerifC34AgreeC0() { verifC34Agree(0xc0, 0xc8) }

//verif:harness prop=C34 reach=done unwind=70 values=300 budget=420 thorough.budget=2400 thorough.paths=400000
func VerifC34AgreeC8() { verifC34Agree(0xc8, 0xd0) }

//verif:harness prop=C34 reach=done unwind=70 values=300 budget=420 thorough.budget=2400 thorough.paths=400000
func VerifC34AgreeD0() { verifC34Agree(0xd0, 0x100) }

