//go:build verif

package logic

import (
	"math/bits"

	vr "github.com/algorand/go-algorand/internal/verifrt"
)

// C32 (exp): opExp returns base^exp exactly when it fits 64 bits and fails
// otherwise (0^0 fails).

func verifC32ExpCheck(e, base uint64) {
	cx := verifCx2(base, e)
	err := opExp(cx)
	if e == 0 && base == 0 {
		vr.Assert("c32.exp.zero-zero-fails", err != nil)
		return
	}
	// Reference: iterated exact multiplication.  Partial products of a base >= 2
	// increase, so base^e fits 64 bits iff every partial product does; the
	// reference stops at the first partial product that does not fit.
	acc := uint64(1)
	fits := true
	for i := uint64(0); i < e && fits; i++ {
		w := vr.ZU(acc).Mul(vr.ZU(base))
		if w.IsU64() {
			acc = w.U64Trunc()
		} else {
			fits = false
		}
	}
	if fits {
		vr.Reach("fits")
		vr.Assert("c32.exp.no-error-when-fits", err == nil)
		vr.Assert("c32.exp.value", len(cx.Stack) == 1 && verifTop(cx) == acc)
	} else {
		vr.Reach("ovf")
		vr.Assert("c32.exp.error-on-overflow", err != nil)
	}
}

// verifC32ExpRoot returns the largest b with b^e < 2^64 (e >= 2), computed on
// concrete values only.
func verifC32ExpRoot(e uint64) uint64 {
	lo, hi := uint64(1), uint64(1)<<32
	for lo+1 < hi {
		mid := lo + (hi-lo)/2
		fits := true
		acc := uint64(1)
		for i := uint64(0); i < e && fits; i++ {
			h, l := bits.Mul64(acc, mid)
			if h != 0 {
				fits = false
			}
			acc = l
		}
		if fits {
			lo = mid
		} else {
			hi = mid
		}
	}
	return lo
}

// Exponents 0, 1 and 2 with a fully symbolic 64-bit base: decided by the solver.
//
//verif:harness prop=C32 reach=fits,ovf unwind=70 budget=400
func VerifC32Exp() {
	e := uint64(vr.Choice("exp", 3))
	base := vr.U64("base")
	verifC32ExpCheck(e, base)
}

// Exponents 3..63: chains of symbolic 64-bit products with a division per step
// were undecided by every solver here (z3 300 s, cvc5 integer mode 100 s, even
// for e = 3 with base < 2^33), so the base is NOT symbolic in this harness: it
// takes the concrete values 2, 3 and the five values around the overflow
// boundary floor(2^(64/e)).  This part is a grid of concrete runs, not a solver
// verdict, and is reported as such in DESIGN.md.
//
//verif:harness prop=C32 reach=fits,ovf unwind=70 budget=400
func VerifC32ExpGrid() {
	e := uint64(3 + vr.Choice("exp", 61))
	r := verifC32ExpRoot(e)
	var base uint64
	switch vr.Choice("base", 3) {
	case 0:
		base = 2
	case 1:
		base = 3
	default:
		base = r - 2 + uint64(vr.Choice("off", 5))
	}
	vr.Assume(base >= 2)
	verifC32ExpCheck(e, base)
}

// Exponents beyond 65 with any base: the result is decided before the loop.
//
//verif:harness prop=C32 reach=done
func VerifC32ExpHuge() {
	e := vr.U64("exp")
	base := vr.U64("base")
	vr.Assume(e >= 64)
	cx := verifCx2(base, e)
	err := opExp(cx)
	switch {
	case base == 0:
		vr.Assert("c32.exp.zero-base", err == nil && len(cx.Stack) == 1 && verifTop(cx) == 0)
	case base == 1:
		vr.Assert("c32.exp.one-base", err == nil && len(cx.Stack) == 1 && verifTop(cx) == 1)
	default:
		vr.Assert("c32.exp.huge-overflows", err != nil)
	}
	vr.Reach("done")
}
