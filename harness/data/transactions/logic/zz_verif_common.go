//go:build verif

package logic

import (
	"github.com/algorand/go-algorand/config"
	"github.com/algorand/go-algorand/data/transactions"
	vr "github.com/algorand/go-algorand/internal/verifrt"
)

// Shared scaffolding for the AVM harnesses (C31, C34): an EvalContext in
// signature mode over a symbolic program tail, and symbolic operands.

var verifC31Skip = map[string]bool{
	"ed25519verify": true, "ed25519verify_bare": true, "ecdsa_verify": true, "ecdsa_pk_decompress": true,
	"ecdsa_pk_recover": true, "vrf_verify": true, "falcon_verify": true, "ec_add": true, "ec_scalar_mul": true,
	"ec_pairing_check": true, "ec_multi_scalar_mul": true, "ec_subgroup_check": true, "ec_map_to": true,
	"mimc": true, "sumhash512": true, "json_ref": true,
	"sha256": true, "keccak256": true, "sha512_256": true, "sha3_256": true, "sha512": true,
	// arithmetic whose step involves multi-word math/big division or long
	// multiplication chains: their panic-freedom and results are decided by the
	// C32 harnesses on bounded operands instead
	"divmodw": true, "expw": true, "exp": true, "b*": true, "b/": true, "b%": true, "bsqrt": true, "sqrt": true,
}

func verifC31Proto() *config.ConsensusParams {
	var p config.ConsensusParams
	p.LogicSigVersion = LogicVersion
	p.LogicSigMaxCost = 20000
	p.LogicSigMaxSize = 1000
	p.MaxAppProgramCost = 700
	p.MaxTxGroupSize = 16
	p.MaxTxnNoteBytes = 1024
	p.MaxAppArgs = 16
	p.MaxAppTotalArgLen = 2048
	p.MaxAppTxnAccounts = 4
	p.MaxAppTxnForeignApps = 8
	p.MaxAppTxnForeignAssets = 8
	p.MaxAppTotalTxnReferences = 8
	p.EnableInnerTransactionPooling = true
	p.EnableAppCostPooling = true
	p.EnableLogicSigCostPooling = true
	return &p
}

func verifC31Context(version uint64, program []byte) *EvalContext {
	proto := verifC31Proto()
	group := make([]transactions.SignedTxnWithAD, 1)
	group[0].Txn.Type = "pay"
	group[0].Lsig.Args = [][]byte{vr.Bytes("arg0", 2)}
	// evaluation always runs with a signature-mode ledger facade (EvalSignature refuses a nil one)
	ep := &EvalParams{Proto: proto, TxnGroup: group, SigLedger: NoHeaderLedger{}}
	cx := &EvalContext{EvalParams: ep, runMode: ModeSig, groupIndex: 0, txn: &group[0], version: version}
	cx.program = program
	cx.pc = 1
	cx.Stack = make([]stackValue, 0, 16)
	cx.intc = []uint64{vr.U64("intc0"), vr.U64("intc1")}
	cx.bytec = [][]byte{vr.Bytes("bytec0", 2)}
	cx.instructionStarts = make([]bool, len(program)+1)
	cx.branchTargets = make([]bool, len(program)+1)
	return cx
}

func verifC31Operand(t StackType, label string) stackValue {
	switch t.AVMType {
	case avmUint64:
		return stackValue{Uint: vr.U64(label)}
	case avmBytes:
		b := vr.Bytes(label, vr.Param(1, 2))
		if b == nil {
			b = []byte{}
		}
		return stackValue{Bytes: b}
	default: // any
		if vr.Bool(label + ".isbytes") {
			return stackValue{Bytes: []byte{vr.U8(label + ".b")}}
		}
		return stackValue{Uint: vr.U64(label)}
	}
}
