//go:build verif

package transactions

import (
	"errors"

	"github.com/algorand/go-algorand/config"
	"github.com/algorand/go-algorand/crypto"
	"github.com/algorand/go-algorand/data/basics"
	vr "github.com/algorand/go-algorand/internal/verifrt"
	"github.com/algorand/go-algorand/protocol"
)

// C28 (post-quantum signature envelope): PQSig.Verify(proto, message,
// authorizer) == nil only if the scheme is known and enabled by the protocol,
// the authorizer IS the address derived from (scheme, salt, public key), a
// signature is present, and the scheme's verifier accepted exactly
// (message, public key, signature).
//
// Idealisation: the address derivation is a collision-free uninterpreted
// function of (scheme, salt, public key); the Falcon verifier is a recording
// fake with a nondeterministic verdict.

var verifC28PQ struct {
	calls    int
	msg      crypto.Hashable
	pk, sig  []byte
	verdict  bool
}

var errVerifC28PQ = errors.New("verif: pq signature does not verify")

type verifC28PQMsg struct{ id byte }

func (m verifC28PQMsg) ToBeHashed() (protocol.HashID, []byte) { return protocol.Transaction, []byte{m.id} }

func verifC28StubFalconVerify(message crypto.Hashable, publicKey, signature []byte) error {
	verifC28PQ.calls++
	verifC28PQ.msg, verifC28PQ.pk, verifC28PQ.sig = message, publicKey, signature
	if !verifC28PQ.verdict {
		return errVerifC28PQ
	}
	return nil
}

type verifC28PQVerifier struct{}

func (verifC28PQVerifier) Verify(message crypto.Hashable, publicKey, signature []byte) error {
	return verifC28StubFalconVerify(message, publicKey, signature)
}

func verifC28StubLookupPQScheme(s protocol.PQScheme) (crypto.PQVerifier, bool) {
	if s == protocol.PQSchemeFalcon1024 {
		return verifC28PQVerifier{}, true
	}
	return nil, false
}

func verifC28PQAddr(scheme protocol.PQScheme, salt basics.PQAddressSalt, pk []byte) basics.Address {
	return basics.Address(vr.Hash32("pqaddr", scheme[:], []byte{byte(salt)}, pk))
}

func verifC28StubPQAddress(scheme protocol.PQScheme, salt basics.PQAddressSalt, pk []byte) basics.Address {
	return verifC28PQAddr(scheme, salt, pk)
}

//verif:harness prop=C28 reach=done,accepted,rejected,wrong-authorizer,disabled,unknown-scheme,no-signature,bad-signature unwind=12 budget=200 thorough.budget=1200
//verif:stub github.com/algorand/go-algorand/crypto.LookupPQScheme = verifC28StubLookupPQScheme
//verif:stub github.com/algorand/go-algorand/data/basics.PQAddress = verifC28StubPQAddress
func VerifC28PQSigVerify() {
	var cp config.ConsensusParams
	cp.EnablePQSchemeFalcon1024 = vr.Bool("EnablePQSchemeFalcon1024")
	var p PQSig
	p.Scheme = protocol.PQSchemeFalcon1024
	if !vr.Bool("scheme.known") {
		p.Scheme[1] = vr.U8("scheme.byte")
	}
	p.Salt = basics.PQAddressSalt(vr.U8("salt"))
	p.PublicKey = vr.Bytes("pk", 2)
	p.Signature = vr.Bytes("sig", 2)
	var authorizer basics.Address
	if vr.Bool("authorizer.derived") {
		authorizer = verifC28PQAddr(p.Scheme, p.Salt, p.PublicKey)
	} else {
		authorizer[0] = vr.U8("authorizer")
	}
	msg := verifC28PQMsg{id: vr.U8("msg")}
	verifC28PQ.calls = 0
	verifC28PQ.verdict = vr.Bool("falcon.accepts")

	err := p.Verify(cp, msg, authorizer)

	known := p.Scheme == protocol.PQSchemeFalcon1024
	derived := authorizer == verifC28PQAddr(p.Scheme, p.Salt, p.PublicKey)
	if err == nil {
		vr.Reach("accepted")
		vr.Assert("c28.pq.scheme-known-and-enabled", known && cp.EnablePQSchemeFalcon1024)
		vr.Assert("c28.pq.authorizer-is-derived-address", derived)
		vr.Assert("c28.pq.signature-present", len(p.Signature) > 0)
		vr.Assert("c28.pq.verified-once-and-accepted", verifC28PQ.calls == 1 && verifC28PQ.verdict)
		m, isMsg := verifC28PQ.msg.(verifC28PQMsg)
		vr.Assert("c28.pq.verified-the-message", isMsg && m.id == msg.id)
		vr.Assert("c28.pq.verified-carried-key-and-signature", string(verifC28PQ.pk) == string(p.PublicKey) && string(verifC28PQ.sig) == string(p.Signature))
	} else {
		vr.Reach("rejected")
		switch {
		case !known:
			vr.Reach("unknown-scheme")
		case !cp.EnablePQSchemeFalcon1024:
			vr.Reach("disabled")
		case !derived:
			vr.Reach("wrong-authorizer")
		case len(p.Signature) == 0:
			vr.Reach("no-signature")
		default:
			vr.Reach("bad-signature")
			vr.Assert("c28.pq.valid-proof-accepted", !verifC28PQ.verdict)
		}
	}
	vr.Reach("done")
}
