//go:build verif

package verify

import (
	"errors"

	"github.com/algorand/go-algorand/config"
	"github.com/algorand/go-algorand/crypto"
	"github.com/algorand/go-algorand/data/basics"
	"github.com/algorand/go-algorand/data/transactions"
	"github.com/algorand/go-algorand/data/transactions/logic"
	vr "github.com/algorand/go-algorand/internal/verifrt"
	"github.com/algorand/go-algorand/protocol"
)

// C28 (signature plumbing): txnBatchPrep / stxnCoreChecks / checkTxnSigTypeCounts
// accept a signed transaction only if EXACTLY ONE authorization category is
// present (signature, multisignature, logic signature program, post-quantum
// signature - the category set of this code base) or it is the signature-less
// state proof transaction from the special sender, and that one authorization
// is checked against SignedTxn's authorizer (AuthAddr, or the sender when
// AuthAddr is zero) over THE transaction. logicSigVerify accepts only a program
// whose hash is the authorizer or which carries exactly one delegation
// signature by the authorizer over the program, and which evaluates to true.
//
// Idealisation: the checks of the individual schemes are recording stubs with a
// nondeterministic verdict (crypto.MultisigBatchPrep - decided in
// harness/crypto/zz_verif_c28.go -, PQSig.Verify, logic.CheckSignature,
// logic.EvalSignatureFull, the batch verifier); crypto.Hash is collision free.

var errVerifC28 = errors.New("verif: stubbed check says no")

type verifC28Entry struct {
	key crypto.SignatureVerifier
	msg crypto.Hashable
	sig crypto.Signature
}

type verifC28Batch struct {
	entries  []verifC28Entry
	verified int
	fail     bool
}

func (b *verifC28Batch) EnqueueSignature(k crypto.SignatureVerifier, m crypto.Hashable, s crypto.Signature) {
	b.entries = append(b.entries, verifC28Entry{k, m, s})
}
func (b *verifC28Batch) GetNumberOfEnqueuedSignatures() int { return len(b.entries) }
func (b *verifC28Batch) Verify() error {
	b.verified++
	if b.fail {
		return errVerifC28
	}
	return nil
}
func (b *verifC28Batch) VerifyWithFeedback() ([]bool, error) { return nil, b.Verify() }

type verifC28MsigCall struct {
	msg  crypto.Hashable
	addr crypto.Digest
	sig  crypto.MultisigSig
}

type verifC28PQCall struct {
	msg        crypto.Hashable
	authorizer basics.Address
	sig        transactions.PQSig
}

var verifC28 struct {
	msigCalls             []verifC28MsigCall
	pqCalls               []verifC28PQCall
	lsigCalls             int
	lsigGi                int
	lsigCtx               *GroupContext
	msigFail, pqFail      bool
	lsigFail              bool
	checkSigCalls         int
	checkSigFail          bool
	evalCalls             int
	evalFail, evalReject  bool
	batch                 *verifC28Batch
	batchFail             bool
}

func verifC28Reset() {
	verifC28.msigCalls, verifC28.pqCalls = nil, nil
	verifC28.lsigCalls, verifC28.checkSigCalls, verifC28.evalCalls = 0, 0, 0
	verifC28.batch = nil
	verifC28.msigFail = vr.Bool("msig.fails")
	verifC28.pqFail = vr.Bool("pq.fails")
	verifC28.lsigFail = vr.Bool("lsig.fails")
	verifC28.checkSigFail = vr.Bool("checksignature.fails")
	verifC28.evalFail = vr.Bool("eval.errors")
	verifC28.evalReject = vr.Bool("eval.rejects")
	verifC28.batchFail = vr.Bool("batch.fails")
}

func verifC28StubMultisigBatchPrep(msg crypto.Hashable, addr crypto.Digest, sig crypto.MultisigSig, batch crypto.BatchEnqueuer) error {
	verifC28.msigCalls = append(verifC28.msigCalls, verifC28MsigCall{msg, addr, sig})
	if verifC28.msigFail {
		return errVerifC28
	}
	return nil
}

func verifC28StubPQVerify(p transactions.PQSig, proto config.ConsensusParams, message crypto.Hashable, authorizer basics.Address) error {
	verifC28.pqCalls = append(verifC28.pqCalls, verifC28PQCall{message, authorizer, p})
	if verifC28.pqFail {
		return errVerifC28
	}
	return nil
}

func verifC28StubLogicSigVerify(gi int, groupCtx *GroupContext) error {
	verifC28.lsigCalls++
	verifC28.lsigGi, verifC28.lsigCtx = gi, groupCtx
	if verifC28.lsigFail {
		return errVerifC28
	}
	return nil
}

func verifC28StubCheckSignature(gi int, params *logic.EvalParams) error {
	verifC28.checkSigCalls++
	if verifC28.checkSigFail {
		return errVerifC28
	}
	return nil
}

func verifC28StubEvalSignatureFull(gi int, params *logic.EvalParams) (bool, *logic.EvalContext, error) {
	verifC28.evalCalls++
	if verifC28.evalFail {
		return false, nil, errVerifC28
	}
	return !verifC28.evalReject, &logic.EvalContext{}, nil
}

func verifC28StubMakeBatchVerifier() crypto.BatchVerifier {
	verifC28.batch = &verifC28Batch{fail: verifC28.batchFail}
	return verifC28.batch
}

func verifC28StubHash(data []byte) crypto.Digest { return crypto.Digest(vr.Hash32("hash", data)) }

func verifC28StubTxID(tx transactions.Transaction) transactions.Txid { return transactions.Txid{} }

// addresses: one symbolic byte (0 = the zero address)
func verifC28Addr(x uint8) basics.Address {
	var a basics.Address
	a[0] = x
	return a
}

var verifC28SPSender = basics.Address{0xF0, 1, 2, 3}

func verifC28Multisig(label string, variants int) crypto.MultisigSig {
	var m crypto.MultisigSig
	switch vr.Choice(label, variants) {
	case 1:
		m.Version = vr.U8(label + ".version")
		m.Threshold = vr.U8(label + ".threshold")
	case 2:
		m.Subsigs = []crypto.MultisigSubsig{}
	}
	return m
}

func verifC28MsigBlank(m crypto.MultisigSig) bool {
	return m.Version == 0 && m.Threshold == 0 && m.Subsigs == nil
}

func verifC28PQSig(label string, variants int) transactions.PQSig {
	var p transactions.PQSig
	switch vr.Choice(label, variants) {
	case 1:
		p.Scheme[0] = vr.U8(label + ".scheme")
		p.Salt = basics.PQAddressSalt(vr.U8(label + ".salt"))
	case 2:
		p.Signature = []byte{1}
		p.PublicKey = []byte{2}
	}
	return p
}

func verifC28PQBlank(p transactions.PQSig) bool {
	return p.Scheme == (protocol.PQScheme{}) && p.Salt == 0 && len(p.PublicKey) == 0 && len(p.Signature) == 0
}

// verifC28SameTxn: the message handed to a scheme is THE transaction (the
// harness transactions differ in sender, note byte and type only).
func verifC28SameTxn(m crypto.Hashable, t transactions.Transaction) bool {
	mt, ok := m.(transactions.Transaction)
	if !ok {
		return false
	}
	return mt.Sender == t.Sender && mt.Type == t.Type && len(mt.Note) == 1 && mt.Note[0] == t.Note[0]
}

func verifC28Authorizer(s *transactions.SignedTxn) basics.Address {
	if s.AuthAddr != (basics.Address{}) {
		return s.AuthAddr
	}
	return s.Txn.Sender
}

//verif:harness prop=C28 reach=done,accepted,rejected,sig,msig,lsig,pqsig,stateproof,rekeyed,nosig,twosigs unwind=12 budget=250 thorough.budget=1500
//verif:stub github.com/algorand/go-algorand/crypto.MultisigBatchPrep = verifC28StubMultisigBatchPrep
//verif:stub (github.com/algorand/go-algorand/data/transactions.PQSig).Verify = verifC28StubPQVerify
//verif:stub github.com/algorand/go-algorand/data/transactions/verify.logicSigVerify = verifC28StubLogicSigVerify
//verif:noop (*github.com/algorand/go-algorand/util/metrics.Counter).
func VerifC28CoreChecks() {
	transactions.StateProofSender = verifC28SPSender
	verifC28Reset()
	var cp config.ConsensusParams
	// the rekeying rules of txnBatchPrep are exercised by VerifC28RekeyRules
	cp.SupportRekeying = true
	cp.EnablePQSchemeFalcon1024 = vr.Bool("EnablePQSchemeFalcon1024")

	var s transactions.SignedTxn
	s.Txn.Type = protocol.PaymentTx
	if vr.Bool("stateprooftype") {
		s.Txn.Type = protocol.StateProofTx
	}
	s.Txn.Sender = verifC28Addr(1)
	if vr.Bool("stateproofsender") {
		s.Txn.Sender = verifC28SPSender
	}
	s.Txn.Note = []byte{vr.U8("note")}
	s.AuthAddr = verifC28Addr(vr.U8("authaddr") % 3)
	s.Sig[5] = vr.U8("sig")
	s.Msig = verifC28Multisig("msig", 2)
	if vr.Bool("lsig.program") {
		s.Lsig.Logic = []byte{1, 0x20}
	}
	// content of a LogicSig WITHOUT program is not an authorization
	s.Lsig.Sig[3] = vr.U8("lsig.sig")
	s.Lsig.PQsig = verifC28PQSig("lsig.pqsig", 2)
	s.PQsig = verifC28PQSig("pqsig", 2)

	ctx := &GroupContext{consensusParams: cp, signedGroupTxns: []transactions.SignedTxn{s}}
	batch := &verifC28Batch{}

	gerr := txnBatchPrep(0, ctx, batch)

	hasSig := s.Sig != (crypto.Signature{})
	hasMsig := !verifC28MsigBlank(s.Msig)
	hasLsig := len(s.Lsig.Logic) != 0
	hasPQ := !verifC28PQBlank(s.PQsig)
	count := 0
	if hasSig {
		count++
	}
	if hasMsig {
		count++
	}
	if hasLsig {
		count++
	}
	if hasPQ {
		count++
	}
	auth := verifC28Authorizer(&s)
	isSP := s.Txn.Sender == verifC28SPSender && s.Txn.Type == protocol.StateProofTx
	checks := len(batch.entries) + len(verifC28.msigCalls) + len(verifC28.pqCalls) + verifC28.lsigCalls

	if gerr != nil {
		vr.Reach("rejected")
		if count == 0 && !isSP {
			vr.Reach("nosig")
		}
		if count > 1 {
			vr.Reach("twosigs")
		}
		vr.Reach("done")
		return
	}
	vr.Reach("accepted")
	vr.Assert("c28.core.at-most-one-authorization", count <= 1)
	vr.Assert("c28.core.unsigned-only-state-proof", vr.Implies(count == 0, isSP))
	vr.Assert("c28.core.exactly-one-check", vr.Implies(count == 1, checks == 1))
	vr.Assert("c28.core.state-proof-no-check", vr.Implies(count == 0, checks == 0))
	if s.AuthAddr != (basics.Address{}) {
		vr.Reach("rekeyed")
	}
	// post-quantum material only when enabled
	if !cp.EnablePQSchemeFalcon1024 {
		vr.Assert("c28.core.pq-needs-enabling", !hasPQ && verifC28PQBlank(s.Lsig.PQsig))
	}
	switch {
	case hasSig:
		vr.Reach("sig")
		vr.Assert("c28.core.sig-enqueued", len(batch.entries) == 1)
		e := batch.entries[0]
		vr.Assert("c28.core.sig-by-authorizer", basics.Address(e.key) == auth)
		vr.Assert("c28.core.sig-over-the-transaction", verifC28SameTxn(e.msg, s.Txn))
		vr.Assert("c28.core.sig-is-the-carried-one", e.sig == s.Sig)
	case hasMsig:
		vr.Reach("msig")
		vr.Assert("c28.core.msig-checked", len(verifC28.msigCalls) == 1 && !verifC28.msigFail)
		c := verifC28.msigCalls[0]
		vr.Assert("c28.core.msig-for-authorizer", basics.Address(c.addr) == auth)
		vr.Assert("c28.core.msig-over-the-transaction", verifC28SameTxn(c.msg, s.Txn))
		vr.Assert("c28.core.msig-is-the-carried-one", c.sig.Version == s.Msig.Version && c.sig.Threshold == s.Msig.Threshold && (c.sig.Subsigs == nil) == (s.Msig.Subsigs == nil))
	case hasLsig:
		vr.Reach("lsig")
		vr.Assert("c28.core.lsig-verified", verifC28.lsigCalls == 1 && !verifC28.lsigFail)
		vr.Assert("c28.core.lsig-of-this-transaction", verifC28.lsigGi == 0 && verifC28.lsigCtx == ctx)
	case hasPQ:
		vr.Reach("pqsig")
		vr.Assert("c28.core.pq-verified", len(verifC28.pqCalls) == 1 && !verifC28.pqFail)
		c := verifC28.pqCalls[0]
		vr.Assert("c28.core.pq-for-authorizer", c.authorizer == auth)
		vr.Assert("c28.core.pq-over-the-transaction", verifC28SameTxn(c.msg, s.Txn))
		vr.Assert("c28.core.pq-is-the-carried-one", c.sig.Scheme == s.PQsig.Scheme && c.sig.Salt == s.PQsig.Salt && len(c.sig.Signature) == len(s.PQsig.Signature))
	default:
		vr.Reach("stateproof")
	}
	vr.Reach("done")
}

// checkTxnSigTypeCounts alone: verdict and reported category, both directions.
//verif:harness prop=C28 reach=done,accepted,nosig,twosigs,stateproof unwind=12 budget=250 thorough.budget=1500
func VerifC28SigTypeCounts() {
	transactions.StateProofSender = verifC28SPSender
	var s transactions.SignedTxn
	s.Txn.Type = protocol.PaymentTx
	if vr.Bool("stateprooftype") {
		s.Txn.Type = protocol.StateProofTx
	}
	s.Txn.Sender = verifC28Addr(1)
	if vr.Bool("stateproofsender") {
		s.Txn.Sender = verifC28SPSender
	}
	s.Sig[63] = vr.U8("sig")
	s.Msig = verifC28Multisig("msig", 3)
	if vr.Bool("lsig.program") {
		s.Lsig.Logic = []byte{1}
	}
	s.Lsig.Args = [][]byte{{vr.U8("arg")}}
	s.PQsig = verifC28PQSig("pqsig", 3)

	typ, gerr := checkTxnSigTypeCounts(&s, 3)

	hasSig := s.Sig != (crypto.Signature{})
	hasMsig := !verifC28MsigBlank(s.Msig)
	hasLsig := len(s.Lsig.Logic) != 0
	hasPQ := !verifC28PQBlank(s.PQsig)
	var want sigOrTxnType
	count := 0
	if hasSig {
		count++
		want = regularSig
	}
	if hasMsig {
		count++
		want = multiSig
	}
	if hasLsig {
		count++
		want = logicSig
	}
	if hasPQ {
		count++
		want = pqSig
	}
	isSP := s.Txn.Sender == verifC28SPSender && s.Txn.Type == protocol.StateProofTx
	switch {
	case count == 1:
		vr.Reach("accepted")
		vr.Assert("c28.count.single-accepted", gerr == nil && typ == want)
	case count == 0 && isSP:
		vr.Reach("stateproof")
		vr.Assert("c28.count.state-proof-exception", gerr == nil && typ == stateProofTxn)
	case count == 0:
		vr.Reach("nosig")
		vr.Assert("c28.count.unsigned-rejected", gerr != nil && gerr.Reason == TxGroupErrorReasonHasNoSig && gerr.GroupIndex == 3)
	default:
		vr.Reach("twosigs")
		vr.Assert("c28.count.several-rejected", gerr != nil && gerr.Reason == TxGroupErrorReasonSigNotWellFormed && gerr.GroupIndex == 3)
	}
	vr.Reach("done")
}

// logicSigVerify: sanity check (who may use this program) + batch + evaluation.
//verif:harness prop=C28 reach=done,accepted,rejected,contract-account,delegated-sig,delegated-msig,delegated-lmsig,delegated-pq unwind=16 budget=250 thorough.budget=1500
//verif:stub github.com/algorand/go-algorand/crypto.MultisigBatchPrep = verifC28StubMultisigBatchPrep
//verif:stub (github.com/algorand/go-algorand/data/transactions.PQSig).Verify = verifC28StubPQVerify
//verif:stub github.com/algorand/go-algorand/data/transactions/logic.CheckSignature = verifC28StubCheckSignature
//verif:stub github.com/algorand/go-algorand/data/transactions/logic.EvalSignatureFull = verifC28StubEvalSignatureFull
//verif:stub github.com/algorand/go-algorand/crypto.MakeBatchVerifier = verifC28StubMakeBatchVerifier
//verif:stub github.com/algorand/go-algorand/crypto.Hash = verifC28StubHash
//verif:stub (github.com/algorand/go-algorand/data/transactions.Transaction).ID = verifC28StubTxID
//verif:noop (*github.com/algorand/go-algorand/util/metrics.Counter).
func VerifC28LogicSigVerify() {
	verifC28Reset()
	var cp config.ConsensusParams
	cp.LogicSigVersion = uint64(vr.U8("LogicSigVersion"))
	cp.MaxAbsoluteLogicSigProgramSize = uint64(vr.U8("MaxAbsoluteLogicSigProgramSize"))
	cp.LogicSigMsig = vr.Bool("LogicSigMsig")
	cp.LogicSigLMsig = vr.Bool("LogicSigLMsig")

	var s transactions.SignedTxn
	s.Txn.Type = protocol.PaymentTx
	s.Txn.Note = []byte{7}
	n := 2 * vr.Choice("programlen", 2)
	if n > 0 {
		s.Lsig.Logic = make([]byte, n)
		s.Lsig.Logic[0] = vr.U8("program.version")
		vr.Assume(s.Lsig.Logic[0] < 0x80) // one-byte varint version
		if n > 1 {
			s.Lsig.Logic[1] = vr.U8("program.op")
		}
	}
	wantHash := basics.Address(vr.Hash32("hash", append([]byte(protocol.Program), s.Lsig.Logic...)))
	if vr.Bool("sender.is.programhash") {
		s.Txn.Sender = wantHash
	} else {
		s.Txn.Sender = verifC28Addr(1)
	}
	if vr.Bool("rekeyed") {
		if vr.Bool("authaddr.is.programhash") {
			s.AuthAddr = wantHash
		} else {
			s.AuthAddr = verifC28Addr(2)
		}
	}
	s.Lsig.Sig[9] = vr.U8("lsig.sig")
	s.Lsig.Msig = verifC28Multisig("lsig.msig", 2)
	s.Lsig.LMsig = verifC28Multisig("lsig.lmsig", 2)
	s.Lsig.PQsig = verifC28PQSig("lsig.pqsig", 2)

	ctx := &GroupContext{consensusParams: cp, signedGroupTxns: []transactions.SignedTxn{s}}

	gerr := logicSigVerify(0, ctx)

	if gerr != nil {
		vr.Reach("rejected")
		vr.Reach("done")
		return
	}
	vr.Reach("accepted")
	auth := verifC28Authorizer(&s)
	lsig := &s.Lsig
	vr.Assert("c28.lsig.enabled", cp.LogicSigVersion != 0)
	vr.Assert("c28.lsig.has-program", len(lsig.Logic) > 0)
	vr.Assert("c28.lsig.program-size", uint64(len(lsig.Logic)) <= cp.MaxAbsoluteLogicSigProgramSize)
	vr.Assert("c28.lsig.program-version", uint64(lsig.Logic[0]) <= cp.LogicSigVersion)
	vr.Assert("c28.lsig.program-checked", verifC28.checkSigCalls == 1 && !verifC28.checkSigFail)
	vr.Assert("c28.lsig.program-approved", verifC28.evalCalls == 1 && !verifC28.evalFail && !verifC28.evalReject)
	vr.Assert("c28.lsig.batch-verified", verifC28.batch != nil && verifC28.batch.verified == 1 && !verifC28.batchFail)
	b := verifC28.batch

	hasSig := lsig.Sig != (crypto.Signature{})
	hasMsig := !verifC28MsigBlank(lsig.Msig)
	hasLMsig := !verifC28MsigBlank(lsig.LMsig)
	hasPQ := !verifC28PQBlank(lsig.PQsig)
	count := 0
	if hasSig {
		count++
	}
	if hasMsig {
		count++
	}
	if hasLMsig {
		count++
	}
	if hasPQ {
		count++
	}
	vr.Assert("c28.lsig.at-most-one-delegation", count <= 1)
	checks := len(b.entries) + len(verifC28.msigCalls) + len(verifC28.pqCalls)
	vr.Assert("c28.lsig.exactly-one-delegation-check", checks == count)
	switch {
	case count == 0:
		vr.Reach("contract-account")
		vr.Assert("c28.lsig.contract-account-is-program-hash", auth == wantHash)
	case hasSig:
		vr.Reach("delegated-sig")
		e := b.entries[0]
		p, isProg := e.msg.(*logic.Program)
		vr.Assert("c28.lsig.sig-by-authorizer", basics.Address(e.key) == auth)
		vr.Assert("c28.lsig.sig-over-the-program", isProg && string(*p) == string(lsig.Logic))
		vr.Assert("c28.lsig.sig-is-the-carried-one", e.sig == lsig.Sig)
	case hasMsig:
		vr.Reach("delegated-msig")
		vr.Assert("c28.lsig.msig-supported", cp.LogicSigMsig)
		vr.Assert("c28.lsig.msig-passed", !verifC28.msigFail)
		c := verifC28.msigCalls[0]
		p, isProg := c.msg.(logic.Program)
		vr.Assert("c28.lsig.msig-for-authorizer", basics.Address(c.addr) == auth)
		vr.Assert("c28.lsig.msig-over-the-program", isProg && string(p) == string(lsig.Logic))
		vr.Assert("c28.lsig.msig-is-the-carried-one", c.sig.Version == lsig.Msig.Version && c.sig.Threshold == lsig.Msig.Threshold)
	case hasLMsig:
		vr.Reach("delegated-lmsig")
		vr.Assert("c28.lsig.lmsig-supported", cp.LogicSigLMsig)
		vr.Assert("c28.lsig.lmsig-passed", !verifC28.msigFail)
		c := verifC28.msigCalls[0]
		p, isProg := c.msg.(logic.MultisigProgram)
		vr.Assert("c28.lsig.lmsig-for-authorizer", basics.Address(c.addr) == auth)
		vr.Assert("c28.lsig.lmsig-over-address-and-program", isProg && basics.Address(p.Addr) == auth && string(p.Program) == string(lsig.Logic))
		vr.Assert("c28.lsig.lmsig-is-the-carried-one", c.sig.Version == lsig.LMsig.Version && c.sig.Threshold == lsig.LMsig.Threshold)
	default:
		vr.Reach("delegated-pq")
		vr.Assert("c28.lsig.pq-passed", !verifC28.pqFail)
		c := verifC28.pqCalls[0]
		p, isProg := c.msg.(logic.PQDelegatedProgram)
		vr.Assert("c28.lsig.pq-for-authorizer", c.authorizer == auth)
		vr.Assert("c28.lsig.pq-over-address-and-program", isProg && p.Addr == auth && string(p.Program) == string(lsig.Logic))
		vr.Assert("c28.lsig.pq-is-the-carried-one", c.sig.Scheme == lsig.PQsig.Scheme && c.sig.Salt == lsig.PQsig.Salt)
	}
	vr.Reach("done")
}

// txnBatchPrep's own rules: an AuthAddr needs rekeying support and, when
// enforced, must differ from the sender (as coded).
//verif:harness prop=C28 reach=done,accepted,rejected,rekeyed unwind=12 budget=250 thorough.budget=1500
func VerifC28RekeyRules() {
	var cp config.ConsensusParams
	cp.SupportRekeying = vr.Bool("SupportRekeying")
	cp.EnforceAuthAddrSenderDiff = vr.Bool("EnforceAuthAddrSenderDiff")
	var s transactions.SignedTxn
	s.Txn.Type = protocol.PaymentTx
	s.Txn.Sender = verifC28Addr(1 + vr.U8("sender")%2)
	s.Txn.Note = []byte{vr.U8("note")}
	s.AuthAddr = verifC28Addr(vr.U8("authaddr") % 3)
	s.Sig[5] = 1 + vr.U8("sig")%255
	ctx := &GroupContext{consensusParams: cp, signedGroupTxns: []transactions.SignedTxn{s}}
	batch := &verifC28Batch{}
	gerr := txnBatchPrep(0, ctx, batch)
	rekeyed := s.AuthAddr != (basics.Address{})
	bad := rekeyed && (!cp.SupportRekeying || (cp.EnforceAuthAddrSenderDiff && s.AuthAddr == s.Txn.Sender))
	if gerr == nil {
		vr.Reach("accepted")
		if rekeyed {
			vr.Reach("rekeyed")
		}
		vr.Assert("c28.rekey.rules", !bad)
		vr.Assert("c28.rekey.sig-by-authorizer", len(batch.entries) == 1 && basics.Address(batch.entries[0].key) == verifC28Authorizer(&s))
	} else {
		vr.Reach("rejected")
		vr.Assert("c28.rekey.only-rule-violations-rejected", bad)
		vr.Assert("c28.rekey.rejected-enqueues-nothing", len(batch.entries) == 0)
	}
	vr.Reach("done")
}
