//go:build verif

package transactions

import (
	"github.com/algorand/go-algorand/crypto"
	vr "github.com/algorand/go-algorand/internal/verifrt"
	"github.com/algorand/go-algorand/protocol"
)

// C29 (group part, signature-verification path): CheckTxnGroup - called by
// verify.txnGroupBatchPrep on every group entering the pool or a block being
// validated - accepts a group only if all members carry the same Group value,
// non-zero for more than one member, equal to the hash of the ordered list of
// the members' group-less IDs. Same idealisation as
// harness/ledger/eval/zz_verif_c29.go: Transaction.ID and the TxGroup hash are
// collision-free uninterpreted functions.

func verifC29U64(x uint64) []byte {
	return []byte{byte(x >> 56), byte(x >> 48), byte(x >> 40), byte(x >> 32), byte(x >> 24), byte(x >> 16), byte(x >> 8), byte(x)}
}

func verifC29TxFields(tx Transaction) [][]byte {
	return [][]byte{[]byte(tx.Type), tx.Sender[:], verifC29U64(tx.Fee.Raw), verifC29U64(uint64(tx.FirstValid)),
		verifC29U64(uint64(tx.LastValid)), tx.Note, []byte(tx.GenesisID), tx.GenesisHash[:], tx.Group[:], tx.Lease[:],
		tx.RekeyTo[:], tx.Receiver[:], verifC29U64(tx.Amount.Raw), tx.CloseRemainderTo[:]}
}

func verifC29StubTxID(tx Transaction) Txid {
	return Txid(vr.Hash32("txid", verifC29TxFields(tx)...))
}

func verifC29GroupPreimage(tg TxGroup) []byte {
	b := []byte(protocol.TxGroup)
	for i := range tg.TxGroupHashes {
		b = append(b, tg.TxGroupHashes[i][:]...)
	}
	return b
}

func verifC29StubHashTxGroup(tg TxGroup) crypto.Digest {
	return crypto.Digest(vr.Hash32("hash", verifC29GroupPreimage(tg)))
}

//verif:harness prop=C29 reach=done,accepted,rejected,grouped,single-ungrouped unwind=12 budget=200 thorough.budget=1200
//verif:stub (github.com/algorand/go-algorand/data/transactions.Transaction).ID = verifC29StubTxID
//verif:stub github.com/algorand/go-algorand/data/transactions.hashTxGroup = verifC29StubHashTxGroup
func VerifC29CheckTxnGroup() {
	n := 1 + vr.Choice("n", vr.Param(3, 4))
	labels := [4]string{"t0", "t1", "t2", "t3"}
	g := make([]SignedTxn, n)
	for i := 0; i < n; i++ {
		g[i].Txn.Type = protocol.PaymentTx
		g[i].Txn.Sender[0] = 1
		g[i].Txn.Note = []byte{vr.U8(labels[i] + ".note")}
		vr.Fill(labels[i]+".group", g[i].Txn.Group[:])
	}

	err := CheckTxnGroup(g)

	if err != nil {
		vr.Reach("rejected")
		vr.Reach("done")
		return
	}
	vr.Reach("accepted")
	zero := crypto.Digest{}
	for i := 1; i < n; i++ {
		vr.Assert("c29.checkgroup.same-id", g[i].Txn.Group == g[0].Txn.Group)
	}
	if n > 1 {
		vr.Assert("c29.checkgroup.nonzero", g[0].Txn.Group != zero)
	}
	if g[0].Txn.Group != zero {
		vr.Reach("grouped")
		var want TxGroup
		for i := range g {
			tx := g[i].Txn
			tx.Group = crypto.Digest{}
			want.TxGroupHashes = append(want.TxGroupHashes, crypto.Digest(vr.Hash32("txid", verifC29TxFields(tx)...)))
		}
		vr.Assert("c29.checkgroup.id-is-hash-of-ordered-members", g[0].Txn.Group == crypto.Digest(vr.Hash32("hash", verifC29GroupPreimage(want))))
	} else {
		vr.Reach("single-ungrouped")
	}
	vr.Reach("done")
}
