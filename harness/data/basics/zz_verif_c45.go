//go:build verif

package basics

import (
	vr "github.com/algorand/go-algorand/internal/verifrt"
)

// C45: overflow-checked arithmetic is exact. Every harness compares the real
// helper with an exact-integer (never wrapping) oracle for all operands.

//verif:harness prop=C45 reach=done
func VerifC45OAdd64() {
	a, b := vr.U64("a"), vr.U64("b")
	res, ov := OAdd(a, b)
	sum := vr.ZU(a).Add(vr.ZU(b))
	vr.Assert("c45.oadd64.flag", ov == !sum.IsU64())
	vr.Assert("c45.oadd64.value", vr.Implies(!ov, vr.ZU(res).Eq(sum)))
	vr.Reach("done")
}

//verif:harness prop=C45 reach=done
func VerifC45OAddSmall() {
	{
		a, b := vr.U8("a8"), vr.U8("b8")
		res, ov := OAdd(a, b)
		sum := vr.ZU(uint64(a)).Add(vr.ZU(uint64(b)))
		vr.Assert("c45.oadd8.flag", ov == !sum.Fits(8))
		vr.Assert("c45.oadd8.value", vr.Implies(!ov, vr.ZU(uint64(res)).Eq(sum)))
	}
	{
		a, b := vr.U16("a16"), vr.U16("b16")
		res, ov := OAdd(a, b)
		sum := vr.ZU(uint64(a)).Add(vr.ZU(uint64(b)))
		vr.Assert("c45.oadd16.flag", ov == !sum.Fits(16))
		vr.Assert("c45.oadd16.value", vr.Implies(!ov, vr.ZU(uint64(res)).Eq(sum)))
	}
	{
		a, b := vr.U32("a32"), vr.U32("b32")
		res, ov := OAdd(a, b)
		sum := vr.ZU(uint64(a)).Add(vr.ZU(uint64(b)))
		vr.Assert("c45.oadd32.flag", ov == !sum.Fits(32))
		vr.Assert("c45.oadd32.value", vr.Implies(!ov, vr.ZU(uint64(res)).Eq(sum)))
	}
	vr.Reach("done")
}

//verif:harness prop=C45 reach=done
func VerifC45OSub() {
	{
		a, b := vr.U64("a"), vr.U64("b")
		res, ov := OSub(a, b)
		d := vr.ZU(a).Sub(vr.ZU(b))
		vr.Assert("c45.osub64.flag", ov == d.Lt(vr.ZU(0)))
		vr.Assert("c45.osub64.value", vr.Implies(!ov, vr.ZU(res).Eq(d)))
	}
	{
		a, b := vr.U8("a8"), vr.U8("b8")
		res, ov := OSub(a, b)
		d := vr.ZU(uint64(a)).Sub(vr.ZU(uint64(b)))
		vr.Assert("c45.osub8.flag", ov == d.Lt(vr.ZU(0)))
		vr.Assert("c45.osub8.value", vr.Implies(!ov, vr.ZU(uint64(res)).Eq(d)))
	}
	{
		a, b := vr.U32("a32"), vr.U32("b32")
		res, ov := OSub(a, b)
		d := vr.ZU(uint64(a)).Sub(vr.ZU(uint64(b)))
		vr.Assert("c45.osub32.flag", ov == d.Lt(vr.ZU(0)))
		vr.Assert("c45.osub32.value", vr.Implies(!ov, vr.ZU(uint64(res)).Eq(d)))
	}
	vr.Reach("done")
}

//verif:harness prop=C45 reach=done
func VerifC45ODiff() {
	a, b := vr.U64("a"), vr.U64("b")
	res, ov := ODiff(a, b)
	d := vr.ZU(a).Sub(vr.ZU(b))
	lo := vr.ZI(-1 << 63)
	hi := vr.ZI(1<<63 - 1)
	inRange := d.Ge(lo) && d.Le(hi)
	vr.Assert("c45.odiff.flag", ov == !inRange)
	vr.Assert("c45.odiff.value", vr.Implies(!ov, vr.ZI(res).Eq(d)))
	vr.Reach("done")
}

//verif:harness prop=C45 reach=done
func VerifC45OMul64() {
	a, b := vr.U64("a"), vr.U64("b")
	res, ov := OMul(a, b)
	p := vr.ZU(a).Mul(vr.ZU(b))
	vr.Assert("c45.omul64.flag", ov == !p.IsU64())
	vr.Assert("c45.omul64.value", vr.Implies(!ov, vr.ZU(res).Eq(p)))
	vr.Reach("done")
}

//verif:harness prop=C45 reach=done
func VerifC45OMulSmall() {
	{
		a, b := vr.U8("a8"), vr.U8("b8")
		res, ov := OMul(a, b)
		p := vr.ZU(uint64(a)).Mul(vr.ZU(uint64(b)))
		vr.Assert("c45.omul8.flag", ov == !p.Fits(8))
		vr.Assert("c45.omul8.value", vr.Implies(!ov, vr.ZU(uint64(res)).Eq(p)))
	}
	{
		a, b := vr.U16("a16"), vr.U16("b16")
		res, ov := OMul(a, b)
		p := vr.ZU(uint64(a)).Mul(vr.ZU(uint64(b)))
		vr.Assert("c45.omul16.flag", ov == !p.Fits(16))
		vr.Assert("c45.omul16.value", vr.Implies(!ov, vr.ZU(uint64(res)).Eq(p)))
	}
	{
		a, b := vr.U32("a32"), vr.U32("b32")
		res, ov := OMul(a, b)
		p := vr.ZU(uint64(a)).Mul(vr.ZU(uint64(b)))
		vr.Assert("c45.omul32.flag", ov == !p.Fits(32))
		vr.Assert("c45.omul32.value", vr.Implies(!ov, vr.ZU(uint64(res)).Eq(p)))
	}
	vr.Reach("done")
}

//verif:harness prop=C45 reach=done merge=0
func VerifC45Saturate() {
	a, b := vr.U64("a"), vr.U64("b")
	max := vr.ZU(^uint64(0))
	{
		s := vr.ZU(a).Add(vr.ZU(b))
		want := s
		if s.Gt(max) {
			want = max
		}
		vr.Assert("c45.addsat", vr.ZU(AddSaturate(a, b)).Eq(want))
	}
	{
		d := vr.ZU(a).Sub(vr.ZU(b))
		want := d
		if d.Lt(vr.ZU(0)) {
			want = vr.ZU(0)
		}
		vr.Assert("c45.subsat", vr.ZU(SubSaturate(a, b)).Eq(want))
	}
	{
		p := vr.ZU(a).Mul(vr.ZU(b))
		want := p
		if p.Gt(max) {
			want = max
		}
		vr.Assert("c45.mulsat", vr.ZU(MulSaturate(a, b)).Eq(want))
	}
	vr.Reach("done")
}

//verif:harness prop=C45 reach=done
func VerifC45Tracker() {
	a, b := vr.U64("a"), vr.U64("b")
	var t OverflowTracker
	t.Overflowed = vr.Bool("pre")
	pre := t.Overflowed
	op := vr.Choice("op", 3)
	var exact vr.Z
	var got uint64
	switch op {
	case 0:
		got = t.Add(a, b)
		exact = vr.ZU(a).Add(vr.ZU(b))
	case 1:
		got = t.Sub(a, b)
		exact = vr.ZU(a).Sub(vr.ZU(b))
	default:
		got = t.Mul(a, b)
		exact = vr.ZU(a).Mul(vr.ZU(b))
	}
	vr.Assert("c45.tracker.sticky", vr.Implies(pre, t.Overflowed))
	vr.Assert("c45.tracker.flag", vr.Implies(!pre, t.Overflowed == !exact.IsU64()))
	vr.Assert("c45.tracker.value", vr.Implies(exact.IsU64(), vr.ZU(got).Eq(exact)))
	vr.Reach("done")
}

//verif:harness prop=C45 reach=done,overflow
func VerifC45Muldiv() {
	a, b, c := vr.U64("a"), vr.U64("b"), vr.U64("c")
	vr.Assume(c != 0)
	q, r, ov := muldiv(a, b, c)
	p := vr.ZU(a).Mul(vr.ZU(b))
	eq := p.Div(vr.ZU(c))
	er := p.Mod(vr.ZU(c))
	vr.Assert("c45.muldiv.flag", ov == !eq.IsU64())
	vr.Assert("c45.muldiv.quo", vr.Implies(!ov, vr.ZU(q).Eq(eq)))
	vr.Assert("c45.muldiv.rem", vr.Implies(!ov, vr.ZU(r).Eq(er)))
	q2, ov2 := Muldiv(a, b, c)
	vr.Assert("c45.Muldiv.same", ov2 == ov && q2 == q)
	if ov {
		vr.Reach("overflow")
	}
	vr.Reach("done")
}
