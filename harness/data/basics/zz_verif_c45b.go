//go:build verif

package basics

import (
	vr "github.com/algorand/go-algorand/internal/verifrt"
)

const verifMaxU64 = ^uint64(0)

//verif:harness prop=C45 reach=done,overflow,exact merge=0
func VerifC45Mul2div() {
	a, b, c, d := vr.U64("a"), vr.U64("b"), vr.U64("c"), vr.U64("d")
	vr.Assume(d != 0)
	q, r, ov := Mul2div(a, b, c, d)
	p := vr.ZU(a).Mul(vr.ZU(b)).Mul(vr.ZU(c))
	eq := p.Div(vr.ZU(d))
	er := p.Mod(vr.ZU(d))
	vr.Assert("c45.mul2div.flag", ov == !eq.IsU64())
	vr.Assert("c45.mul2div.quo", vr.Implies(!ov, vr.ZU(q).Eq(eq)))
	vr.Assert("c45.mul2div.rem", vr.Implies(!ov, vr.ZU(r).Eq(er)))
	vr.Assert("c45.mul2div.saturates", vr.Implies(ov, q == verifMaxU64 && r == 0))
	if ov {
		vr.Reach("overflow")
	} else {
		vr.Reach("exact")
	}
	vr.Reach("done")
}

//verif:harness prop=C45 reach=done
func VerifC45Divvy() {
	num, den, q := vr.U64("num"), vr.U64("den"), vr.U64("q")
	// NewFraction's own validity predicate: proper, non-zero denominator
	vr.Assume(den != 0 && num <= den)
	frac := NewFraction(num, den)
	first, second := frac.Divvy(q) // must not panic for proper fractions
	exact := vr.ZU(q).Mul(vr.ZU(num)).Div(vr.ZU(den))
	vr.Assert("c45.divvy.first", vr.ZU(first).Eq(exact))
	vr.Assert("c45.divvy.sum", vr.ZU(first).Add(vr.ZU(second)).Eq(vr.ZU(q)))
	fa, sa := frac.DivvyAlgos(MicroAlgos{Raw: q})
	vr.Assert("c45.divvyalgos", fa.Raw == first && sa.Raw == second)
	vr.Reach("done")
}

//verif:harness prop=C45 reach=done
func VerifC45Micros() {
	m, m2 := vr.U64("m"), vr.U64("m2")
	{
		got, ov := Micros(m).Mul(Micros(m2))
		exact := vr.ZU(m).Mul(vr.ZU(m2)).Div(vr.ZU(1000000))
		vr.Assert("c45.micros.mul.flag", ov == !exact.IsU64())
		vr.Assert("c45.micros.mul.value", vr.Implies(!ov, vr.ZU(uint64(got)).Eq(exact)))
		vr.Assert("c45.micros.mul.saturate", vr.Implies(ov, uint64(got) == verifMaxU64))
	}
	{
		i := vr.Int("i")
		got, ov := Micros(m).MulInt(i)
		exact := vr.ZU(m).Mul(vr.ZI(int64(i)))
		vr.Assert("c45.micros.mulint.flag", ov == (i < 0 || !exact.IsU64()))
		vr.Assert("c45.micros.mulint.value", vr.Implies(!ov, vr.ZU(uint64(got)).Eq(exact)))
	}
	{
		base := MicroAlgos{Raw: m}
		got, ov := base.MulMicros(Micros(m2))
		exact := vr.ZU(m).Mul(vr.ZU(m2)).Div(vr.ZU(1000000))
		vr.Assert("c45.mulmicros.flag", ov == !exact.IsU64())
		vr.Assert("c45.mulmicros.value", vr.Implies(!ov, vr.ZU(got.Raw).Eq(exact)))
		vr.Assert("c45.mulmicros.saturate", vr.Implies(ov, got.Raw == verifMaxU64))
	}
	vr.Reach("done")
}

//verif:harness prop=C45 reach=done
func VerifC45UnitsSaturate() {
	a, b := vr.U64("a"), vr.U64("b")
	{
		got := Round(a).SubSaturate(Round(b))
		d := vr.ZU(a).Sub(vr.ZU(b))
		want := d
		if d.Lt(vr.ZU(0)) {
			want = vr.ZU(0)
		}
		vr.Assert("c45.round.subsat", vr.ZU(uint64(got)).Eq(want))
	}
	{
		got := MicroAlgos{Raw: a}.AddSaturate(MicroAlgos{Raw: b})
		s := vr.ZU(a).Add(vr.ZU(b))
		want := s
		if !s.IsU64() {
			want = vr.ZU(verifMaxU64)
		}
		vr.Assert("c45.microalgos.addsat", vr.ZU(got.Raw).Eq(want))
	}
	{
		got := MicroAlgos{Raw: a}.SubSaturate(MicroAlgos{Raw: b})
		d := vr.ZU(a).Sub(vr.ZU(b))
		want := d
		if d.Lt(vr.ZU(0)) {
			want = vr.ZU(0)
		}
		vr.Assert("c45.microalgos.subsat", vr.ZU(got.Raw).Eq(want))
	}
	{
		ra, oa := OAddA(MicroAlgos{Raw: a}, MicroAlgos{Raw: b})
		s := vr.ZU(a).Add(vr.ZU(b))
		vr.Assert("c45.oadda", oa == !s.IsU64() && vr.Implies(!oa, vr.ZU(ra.Raw).Eq(s)))
		rs, os := OSubA(MicroAlgos{Raw: a}, MicroAlgos{Raw: b})
		d := vr.ZU(a).Sub(vr.ZU(b))
		vr.Assert("c45.osuba", os == d.Lt(vr.ZU(0)) && vr.Implies(!os, vr.ZU(rs.Raw).Eq(d)))
	}
	vr.Reach("done")
}

// FeeForUsage is checked in two layers. Mul2div itself is decided against the
// exact 192-bit product by VerifC45Mul2div. Here Mul2div is replaced by its
// contract (a nondeterministic result constrained exactly by what that harness
// establishes) and the round-up/residue logic on top of it is decided:
// the fee is exact iff   fee*1e12 + residue == product + newResidue  and
// newResidue < 1e12 (given residue < 1e12) -- that pair has a unique solution,
// fee = ceil((product - residue)/1e12).
func verifStubMul2div(a uint64, b, c Micros, d uint64) (uint64, uint64, bool) {
	q, r, ov := vr.U64("m2d.q"), vr.U64("m2d.r"), vr.Bool("m2d.ov")
	p := vr.ZU(a).Mul(vr.ZU(uint64(b))).Mul(vr.ZU(uint64(c)))
	vr.Assume(ov == p.Ge(vr.ZU(d).Shl(64)))
	if ov {
		return verifMaxU64, 0, true
	}
	vr.Assume(vr.ZU(q).Mul(vr.ZU(d)).Add(vr.ZU(r)).Eq(p) && r < d)
	return q, r, false
}

//verif:harness prop=C45 reach=done,roundup,absorbed,overflow
//verif:stub github.com/algorand/go-algorand/data/basics.Mul2div = verifStubMul2div
func VerifC45FeeForUsage() {
	base, usage, mult, residue := vr.U64("base"), vr.U64("usage"), vr.U64("mult"), vr.U64("residue")
	vr.Assume(residue < 1000000000000)
	fee, nres, ov := MicroAlgos{Raw: base}.FeeForUsage(Micros(usage), Micros(mult), residue)
	scale := vr.ZU(1000000000000)
	p := vr.ZU(base).Mul(vr.ZU(usage)).Mul(vr.ZU(mult))
	// overflow iff even the largest fee cannot cover the product
	tooBig := p.Gt(vr.ZU(verifMaxU64).Mul(scale).Add(vr.ZU(residue)))
	vr.Assert("c45.fee.flag", ov == tooBig)
	vr.Assert("c45.fee.conserve", vr.Implies(!ov,
		vr.ZU(fee.Raw).Mul(scale).Add(vr.ZU(residue)).Eq(p.Add(vr.ZU(nres)))))
	vr.Assert("c45.fee.residue.range", vr.Implies(!ov, nres < 1000000000000))
	vr.Assert("c45.fee.saturate", vr.Implies(ov, fee.Raw == verifMaxU64 && nres == residue))
	if ov {
		vr.Reach("overflow")
	} else if nres > residue {
		vr.Reach("roundup")
	} else {
		vr.Reach("absorbed")
	}
	vr.Reach("done")
}
