//go:build verif

package bookkeeping

import (
	"github.com/algorand/go-algorand/config"
	"github.com/algorand/go-algorand/data/basics"
	vr "github.com/algorand/go-algorand/internal/verifrt"
	"github.com/algorand/go-algorand/logging"
)

// C25: rewards accounting distributes exactly the rewards rate.
// All of level, rate, residue, pool balance, reward units, MinBalance, refresh
// interval, next round and both protocol flags are symbolic 64-bit values.

func verifRewardsInputs() (s RewardsState, rnd basics.Round, proto config.ConsensusParams, pool basics.MicroAlgos, units uint64) {
	s.RewardsLevel = vr.U64("level")
	s.RewardsRate = vr.U64("rate")
	s.RewardsResidue = vr.U64("residue")
	s.RewardsRecalculationRound = basics.Round(vr.U64("recalc"))
	rnd = basics.Round(vr.U64("round"))
	proto.MinBalance = vr.U64("minbalance")
	proto.RewardsRateRefreshInterval = vr.U64("interval")
	proto.PendingResidueRewards = vr.Bool("pendingresidue")
	proto.RewardsCalculationFix = vr.Bool("calcfix")
	pool = basics.MicroAlgos{Raw: vr.U64("pool")}
	units = vr.U64("units")
	// documented sanity of consensus parameters: the refresh interval is non-zero
	vr.Assume(proto.RewardsRateRefreshInterval != 0)
	return
}

//verif:harness prop=C25 reach=done,advanced,nounits,overflow
func VerifC25Distribution() {
	s, rnd, proto, pool, units := verifRewardsInputs()
	next := s.NextRewardsState(rnd, proto, pool, units, logging.Base())

	// the rate in effect for this round's distribution
	rate := s.RewardsRate
	if proto.RewardsCalculationFix {
		rate = next.RewardsRate
	}
	sum := vr.ZU(rate).Add(vr.ZU(s.RewardsResidue))
	if units == 0 {
		vr.Assert("c25.nounits.unchanged", next.RewardsLevel == s.RewardsLevel && next.RewardsResidue == s.RewardsResidue)
		vr.Reach("nounits")
		vr.Reach("done")
		return
	}
	// Does the exact computation fit in 64 bits? The sum is checked exactly;
	// where it fits, machine division of the (then exact) 64-bit sum is exact too.
	overflow := !sum.IsU64()
	if !overflow {
		q := (rate + s.RewardsResidue) / units
		overflow = !vr.ZU(s.RewardsLevel).Add(vr.ZU(q)).IsU64()
	}
	if overflow {
		vr.Assert("c25.overflow.unchanged", next.RewardsLevel == s.RewardsLevel && next.RewardsResidue == s.RewardsResidue)
		vr.Reach("overflow")
	} else {
		// Δlevel·units + Δresidue == rate, exactly
		dl := vr.ZU(next.RewardsLevel).Sub(vr.ZU(s.RewardsLevel))
		dr := vr.ZU(next.RewardsResidue).Sub(vr.ZU(s.RewardsResidue))
		vr.Assert("c25.distribution.exact", dl.Mul(vr.ZU(units)).Add(dr).Eq(vr.ZU(rate)))
		vr.Assert("c25.residue.bounded", next.RewardsResidue < units)
		vr.Assert("c25.level.monotone", next.RewardsLevel >= s.RewardsLevel)
		vr.Reach("advanced")
	}
	vr.Reach("done")
}

//verif:harness prop=C25 reach=done,refresh,norefresh
func VerifC25Refresh() {
	s, rnd, proto, pool, units := verifRewardsInputs()
	next := s.NextRewardsState(rnd, proto, pool, units, logging.Base())
	if rnd != s.RewardsRecalculationRound {
		vr.Assert("c25.norefresh.rate", next.RewardsRate == s.RewardsRate)
		vr.Assert("c25.norefresh.round", next.RewardsRecalculationRound == s.RewardsRecalculationRound)
		vr.Reach("norefresh")
		vr.Reach("done")
		return
	}
	// budget: what the pool holds above its minimum balance (and above the carried residue when the protocol says so)
	reserve := vr.ZU(proto.MinBalance)
	if proto.PendingResidueRewards {
		reserve = reserve.Add(vr.ZU(s.RewardsResidue))
	}
	budget := vr.ZU(pool.Raw).Sub(reserve)
	scheduled := vr.ZU(next.RewardsRate).Mul(vr.ZU(proto.RewardsRateRefreshInterval))
	if budget.Lt(vr.ZU(0)) {
		vr.Assert("c25.refresh.zero-when-underfunded", next.RewardsRate == 0)
	} else {
		vr.Assert("c25.refresh.within-budget", scheduled.Le(budget))
		// and it is the largest such rate: one more unit per round would exceed the budget
		vr.Assert("c25.refresh.maximal", scheduled.Add(vr.ZU(proto.RewardsRateRefreshInterval)).Gt(budget))
	}
	vr.Assert("c25.refresh.nextround", uint64(next.RewardsRecalculationRound) == uint64(rnd)+proto.RewardsRateRefreshInterval)
	vr.Reach("refresh")
	vr.Reach("done")
}
