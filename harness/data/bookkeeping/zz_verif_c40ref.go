//go:build verif

package bookkeeping

import (
	vr "github.com/algorand/go-algorand/internal/verifrt"
)

// Reference canonical encoder (verbatim copy of harness/agreement/zz_verif_c40ref.go:
// harness helpers cannot be shared across packages) ----------------------------
//
// The canonical encoding of an object is defined by its struct tags and the
// settings of protocol.CodecHandle (Canonical, RecursiveEmptyCheck,
// PositiveIntUnsigned) - that is what the reflection encoder (go-codec) is
// specified to produce and what identifiers (hashes) are computed over:
//
//   struct   a msgpack map; one entry per field that is not omitted, keyed by
//            the field's codec name, entries sorted by key (bytewise); header
//            fixmap (< 16) / map16 / map32
//   omitted  a field is omitted iff it is tagged omitempty (itself or through
//            the struct's `_struct` tag) and its value is empty:
//              integer 0, false, len 0 for slices/maps/strings,
//              struct: the zero value,
//              array: never - unless the struct carries omitemptyarray, then
//              iff every element is empty
//   uint     the shortest of fixint / uint8 / uint16 / uint32 / uint64
//   int      non-negative: as uint; negative: the shortest of negative fixint
//            (-32..-1) / int8 / int16 / int32 / int64
//   bool     0xc2 / 0xc3
//   string   fixstr (< 32) / str8 / str16 by length
//   bytes    bin8 / bin16 / bin32 by length (fixed byte arrays too); nil: 0xc0
//   arrays   fixarray (< 16) / array16 / array32, then the elements; nil slice: 0xc0
//   maps     nil: 0xc0; else header as for structs, entries sorted by key
//            (the harness supplies them in the order given by the key type's
//            documented comparison)
//
// A value is described to the encoder as a tree (verifRefVal) built by hand
// per type FROM THE TAGS in the type's declaration - not from the generated
// code.

const (
	verifRefUint = iota
	verifRefInt
	verifRefBool
	verifRefBin   // fixed-size byte array
	verifRefBytes // []byte
	verifRefStruct
	verifRefArray // fixed-size array of objects
	verifRefSlice
	verifRefMap
	verifRefString
)

type verifRefVal struct {
	kind    int
	u       uint64
	i       int64
	b       []byte
	s       string
	isNil   bool // nil slice / map / []byte
	keys    []string
	omit    []bool
	omitArr bool
	subs    []*verifRefVal // struct fields (declaration order), array/slice elements, map values
	mkeys   []*verifRefVal // map keys (sorted)
}

func verifRefU(u uint64) *verifRefVal { return &verifRefVal{kind: verifRefUint, u: u} }
func verifRefI(i int64) *verifRefVal  { return &verifRefVal{kind: verifRefInt, i: i} }
func verifRefBo(b bool) *verifRefVal {
	v := &verifRefVal{kind: verifRefBool}
	if b {
		v.u = 1
	}
	return v
}
func verifRefB(b []byte) *verifRefVal { return &verifRefVal{kind: verifRefBin, b: b} }
func verifRefBy(b []byte) *verifRefVal {
	return &verifRefVal{kind: verifRefBytes, b: b, isNil: b == nil}
}
func verifRefSt(s string) *verifRefVal { return &verifRefVal{kind: verifRefString, s: s} }
func verifRefArr(e ...*verifRefVal) *verifRefVal { return &verifRefVal{kind: verifRefArray, subs: e} }
func verifRefSl(isNil bool, e ...*verifRefVal) *verifRefVal {
	return &verifRefVal{kind: verifRefSlice, subs: e, isNil: isNil}
}

// one comma-separated option of a codec tag
func verifRefTagHas(tag, opt string) bool {
	start := 0
	first := true
	for i := 0; i <= len(tag); i++ {
		if i == len(tag) || tag[i] == ',' {
			if !first && tag[start:i] == opt {
				return true
			}
			first = false
			start = i + 1
		}
	}
	return false
}

func verifRefTagName(tag string) string {
	for i := 0; i < len(tag); i++ {
		if tag[i] == ',' {
			return tag[:i]
		}
	}
	return tag
}

// verifRefS(structTag, fieldTag1, value1, fieldTag2, value2, ...): the tags
// exactly as written in the declaration (`codec:"..."`), fields in any order.
func verifRefS(structTag string, kv ...interface{}) *verifRefVal {
	s := &verifRefVal{kind: verifRefStruct, omitArr: verifRefTagHas(structTag, "omitemptyarray")}
	all := verifRefTagHas(structTag, "omitempty")
	for i := 0; i < len(kv); i += 2 {
		tag := kv[i].(string)
		s.keys = append(s.keys, verifRefTagName(tag))
		s.omit = append(s.omit, all || verifRefTagHas(tag, "omitempty"))
		s.subs = append(s.subs, kv[i+1].(*verifRefVal))
	}
	return s
}

func verifRefAllZero(b []byte) bool {
	var or byte
	for _, c := range b {
		or |= c
	}
	return or == 0
}

// the zero value of the Go type
func (v *verifRefVal) zero() bool {
	switch v.kind {
	case verifRefUint, verifRefBool:
		return v.u == 0
	case verifRefInt:
		return v.i == 0
	case verifRefBin:
		return verifRefAllZero(v.b)
	case verifRefBytes:
		return len(v.b) == 0
	case verifRefString:
		return len(v.s) == 0
	case verifRefStruct, verifRefArray:
		for _, f := range v.subs {
			if !f.zero() {
				return false
			}
		}
		return true
	}
	return len(v.subs) == 0
}

// "empty" in the sense of omitempty, for a field of a struct with/without omitemptyarray
func (v *verifRefVal) empty(omitArr bool) bool {
	switch v.kind {
	case verifRefBin:
		return len(v.b) == 0 || (omitArr && verifRefAllZero(v.b))
	case verifRefArray:
		if len(v.subs) == 0 {
			return true
		}
		if !omitArr {
			return false
		}
		for _, e := range v.subs {
			if !e.empty(omitArr) {
				return false
			}
		}
		return true
	}
	return v.zero()
}

func verifRefBE(out []byte, x uint64, width int) []byte {
	for i := width - 1; i >= 0; i-- {
		out = append(out, byte(x>>(8*uint(i))))
	}
	return out
}

func verifRefUintEnc(out []byte, u uint64) []byte {
	switch {
	case u < 1<<7:
		return append(out, byte(u))
	case u < 1<<8:
		return verifRefBE(append(out, 0xcc), u, 1)
	case u < 1<<16:
		return verifRefBE(append(out, 0xcd), u, 2)
	case u < 1<<32:
		return verifRefBE(append(out, 0xce), u, 4)
	}
	return verifRefBE(append(out, 0xcf), u, 8)
}

func verifRefIntEnc(out []byte, i int64) []byte {
	switch {
	case i >= 0:
		return verifRefUintEnc(out, uint64(i))
	case i >= -32:
		return append(out, byte(i))
	case i >= -1<<7:
		return verifRefBE(append(out, 0xd0), uint64(i), 1)
	case i >= -1<<15:
		return verifRefBE(append(out, 0xd1), uint64(i), 2)
	case i >= -1<<31:
		return verifRefBE(append(out, 0xd2), uint64(i), 4)
	}
	return verifRefBE(append(out, 0xd3), uint64(i), 8)
}

func verifRefHeader(out []byte, n int, fix, m16, m32 byte) []byte {
	switch {
	case n < 16:
		return append(out, fix|byte(n))
	case n < 1<<16:
		return verifRefBE(append(out, m16), uint64(n), 2)
	}
	return verifRefBE(append(out, m32), uint64(n), 4)
}

func verifRefStr(out []byte, s string) []byte {
	switch {
	case len(s) < 32:
		out = append(out, 0xa0|byte(len(s)))
	case len(s) < 256:
		out = append(out, 0xd9, byte(len(s)))
	default:
		out = verifRefBE(append(out, 0xda), uint64(len(s)), 2)
	}
	return append(out, s...)
}

func (v *verifRefVal) encode(out []byte) []byte {
	switch v.kind {
	case verifRefUint:
		return verifRefUintEnc(out, v.u)
	case verifRefInt:
		return verifRefIntEnc(out, v.i)
	case verifRefBool:
		if v.u != 0 {
			return append(out, 0xc3)
		}
		return append(out, 0xc2)
	case verifRefString:
		return verifRefStr(out, v.s)
	case verifRefBin, verifRefBytes:
		if v.isNil {
			return append(out, 0xc0)
		}
		switch n := len(v.b); {
		case n < 1<<8:
			out = append(out, 0xc4, byte(n))
		case n < 1<<16:
			out = verifRefBE(append(out, 0xc5), uint64(n), 2)
		default:
			out = verifRefBE(append(out, 0xc6), uint64(n), 4)
		}
		return append(out, v.b...)
	case verifRefStruct:
		// sort by key
		idx := make([]int, 0, len(v.keys))
		for i := range v.keys {
			if v.omit[i] && v.subs[i].empty(v.omitArr) {
				continue
			}
			idx = append(idx, i)
		}
		for i := 1; i < len(idx); i++ {
			for j := i; j > 0 && v.keys[idx[j]] < v.keys[idx[j-1]]; j-- {
				idx[j], idx[j-1] = idx[j-1], idx[j]
			}
		}
		out = verifRefHeader(out, len(idx), 0x80, 0xde, 0xdf)
		for _, i := range idx {
			out = verifRefStr(out, v.keys[i])
			out = v.subs[i].encode(out)
		}
		return out
	case verifRefArray, verifRefSlice:
		if v.isNil {
			return append(out, 0xc0)
		}
		out = verifRefHeader(out, len(v.subs), 0x90, 0xdc, 0xdd)
		for _, e := range v.subs {
			out = e.encode(out)
		}
		return out
	case verifRefMap:
		if v.isNil {
			return append(out, 0xc0)
		}
		out = verifRefHeader(out, len(v.subs), 0x80, 0xde, 0xdf)
		for i, e := range v.subs {
			out = v.mkeys[i].encode(out)
			out = e.encode(out)
		}
		return out
	}
	return out
}

// byte-for-byte equality as ONE condition (no branch per byte)
func verifRefSame(a, b []byte) bool {
	if len(a) != len(b) {
		return false
	}
	var diff byte
	for i := range a {
		diff |= a[i] ^ b[i]
	}
	return diff == 0
}

// Symbolic field contents -------------------------------------------------------------
//
// Whether a leaf (integer, byte array) is zero decides whether a field is
// omitted, i.e. the SHAPE of the encoding, and so does the magnitude class of
// an integer. Both are fixed per path by a "pattern" (enumerated), everything
// else is symbolic: a non-zero byte array has symbolic bytes (quick tier: its
// first and last byte over a zero background; thorough: all) constrained only
// to be not all zero; a non-zero integer is any value of its magnitude class
// (1..127, ..2^8-1, ..2^16-1, ..2^32-1, ..2^64-1).

type verifRefFill struct {
	mask []bool // per leaf: non-zero
	leaf int
	rot  int  // rotates the magnitude classes over the integer leaves
	full bool // all bytes symbolic
}

func (f *verifRefFill) next() bool {
	i := f.leaf
	f.leaf++
	if i < len(f.mask) {
		return f.mask[i]
	}
	return true
}

// single-leaf patterns over n leaves: 0 all non-zero, 1 all zero, 2..n+1 one
// leaf zero, n+2..2n+1 one leaf non-zero
func verifRefPatterns(n int) int { return 2*n + 2 }

func verifRefPattern(p, n int) []bool {
	m := make([]bool, n)
	for i := range m {
		switch {
		case p == 0:
			m[i] = true
		case p == 1:
			m[i] = false
		case p < n+2:
			m[i] = i != p-2
		default:
			m[i] = i == p-n-2
		}
	}
	return m
}

// every subset (n small)
func verifRefSubset(p, n int) []bool {
	m := make([]bool, n)
	for i := range m {
		m[i] = p>>uint(i)&1 == 1
	}
	return m
}

func (f *verifRefFill) u64(label string) uint64 {
	if !f.next() {
		return 0
	}
	x := vr.U64(label)
	switch (f.leaf + f.rot) % 5 {
	case 0:
		vr.Assume(x >= 1 && x < 1<<7)
	case 1:
		vr.Assume(x >= 1<<7 && x < 1<<8)
	case 2:
		vr.Assume(x >= 1<<8 && x < 1<<16)
	case 3:
		vr.Assume(x >= 1<<16 && x < 1<<32)
	case 4:
		vr.Assume(x >= 1<<32)
	}
	return x
}

func (f *verifRefFill) bytes(label string, b []byte) {
	if !f.next() {
		return
	}
	if f.full {
		vr.Fill(label, b)
	} else {
		b[0] = vr.U8(label)
		b[len(b)-1] = vr.U8(label)
	}
	vr.Assume(!verifRefAllZero(b))
}

func (f *verifRefFill) boolean(label string) bool {
	if !f.next() {
		return false
	}
	return true
}

// The reference encoder against literal vectors of the msgpack specification
// and a hand-computed canonical encoding (a wrong reference must not agree
// with a wrong encoder by accident).
func verifRefSelfTest() {
	eq := func(v *verifRefVal, want ...byte) {
		vr.Assert("ref.vector", verifRefSame(v.encode(nil), want))
	}
	eq(verifRefU(0), 0x00)
	eq(verifRefU(127), 0x7f)
	eq(verifRefU(128), 0xcc, 0x80)
	eq(verifRefU(255), 0xcc, 0xff)
	eq(verifRefU(256), 0xcd, 0x01, 0x00)
	eq(verifRefU(65535), 0xcd, 0xff, 0xff)
	eq(verifRefU(65536), 0xce, 0x00, 0x01, 0x00, 0x00)
	eq(verifRefU(1<<32-1), 0xce, 0xff, 0xff, 0xff, 0xff)
	eq(verifRefU(1<<32), 0xcf, 0, 0, 0, 1, 0, 0, 0, 0)
	eq(verifRefI(-1), 0xff)
	eq(verifRefI(-32), 0xe0)
	eq(verifRefI(-33), 0xd0, 0xdf)
	eq(verifRefI(-128), 0xd0, 0x80)
	eq(verifRefI(-129), 0xd1, 0xff, 0x7f)
	eq(verifRefI(-32769), 0xd2, 0xff, 0xff, 0x7f, 0xff)
	eq(verifRefI(-1<<31-1), 0xd3, 0xff, 0xff, 0xff, 0xff, 0x7f, 0xff, 0xff, 0xff)
	eq(verifRefI(5), 0x05)
	eq(verifRefBo(true), 0xc3)
	eq(verifRefBo(false), 0xc2)
	eq(verifRefB([]byte{1, 2}), 0xc4, 2, 1, 2)
	eq(verifRefBy(nil), 0xc0)
	eq(verifRefSl(true), 0xc0)
	eq(verifRefSt(""), 0xa0)
	eq(verifRefSt("ab"), 0xa2, 'a', 'b')
	eq(verifRefSl(false, verifRefU(1)), 0x91, 0x01)
	// {"b": 1, "a": [0 0] omitted (omitemptyarray), "c": 0 omitted, "aa": 7} -> sorted a < aa < b
	s := verifRefS(",omitempty,omitemptyarray", "b", verifRefU(1), "a", verifRefB([]byte{0, 0}), "c", verifRefU(0), "aa", verifRefU(7))
	eq(s, 0x82, 0xa2, 'a', 'a', 0x07, 0xa1, 'b', 0x01)
	// without omitemptyarray the zero array stays; a field-level omitempty only
	s = verifRefS("", "b", verifRefU(0), "a,omitempty", verifRefB([]byte{0}), "c,omitempty,omitemptycheckstruct", verifRefU(0))
	eq(s, 0x82, 0xa1, 'a', 0xc4, 1, 0, 0xa1, 'b', 0x00)
}

//verif:harness prop=C40 reach=done budget=60
func VerifC40ReferenceVectorsBK() {
	verifRefSelfTest()
	vr.Reach("done")
}
