//go:build verif

package bookkeeping

import (
	"github.com/algorand/go-algorand/config"
	"github.com/algorand/go-algorand/data/basics"
	vr "github.com/algorand/go-algorand/internal/verifrt"
	"github.com/algorand/go-algorand/protocol"
)

// C26: protocol upgrades switch only when approved, at the announced round.
//
// One inductive step of UpgradeState.applyUpgradeVote from an ARBITRARY state
// satisfying the invariant I, with symbolic consensus parameters installed for
// two protocol versions. I(s, r) for the state s recorded in block r:
//   no proposal  =>  approvals = voteBefore = switchOn = 0
//   proposal     =>  voteBefore <= switchOn  and  r < switchOn
//                    and (r >= voteBefore => approvals >= threshold)
// The step asserts: I is preserved; CurrentProtocol changes only at r = switchOn
// of an approved proposal, to exactly the proposed version; a second proposal,
// an approval without / after the deadline, an out-of-range delay are errors.

var verifVersions = []protocol.ConsensusVersion{"", "vA", "vB"}

type verifUpgradeParams struct {
	voteRounds, threshold, minWait, maxWait, defWait uint64
	maxLen                                            int
}

func verifInstallConsensus() verifUpgradeParams {
	var p verifUpgradeParams
	p.voteRounds = vr.U64("UpgradeVoteRounds")
	p.threshold = vr.U64("UpgradeThreshold")
	p.minWait = vr.U64("MinUpgradeWaitRounds")
	p.maxWait = vr.U64("MaxUpgradeWaitRounds")
	p.defWait = vr.U64("DefaultUpgradeWaitRounds")
	p.maxLen = 8
	// sanity of consensus parameters (no wrap-around of round arithmetic; the
	// default delay is itself a permitted delay)
	vr.Assume(p.voteRounds < 1<<40 && p.maxWait < 1<<40 && p.defWait < 1<<40 && p.threshold < 1<<40)
	vr.Assume(p.minWait <= p.defWait && p.defWait <= p.maxWait)
	vr.Assume(p.threshold <= p.voteRounds)
	// a vote takes at least one round and needs at least one approval (true of every deployed protocol)
	vr.Assume(p.voteRounds >= 1 && p.threshold >= 1)
	var cp config.ConsensusParams
	cp.UpgradeVoteRounds = p.voteRounds
	cp.UpgradeThreshold = p.threshold
	cp.MinUpgradeWaitRounds = p.minWait
	cp.MaxUpgradeWaitRounds = p.maxWait
	cp.DefaultUpgradeWaitRounds = p.defWait
	cp.MaxVersionStringLen = p.maxLen
	config.Consensus = config.ConsensusProtocols{"vA": cp, "vB": cp}
	return p
}

func verifInv(s UpgradeState, r basics.Round, p verifUpgradeParams) bool {
	if s.NextProtocol == "" {
		return s.NextProtocolApprovals == 0 && s.NextProtocolVoteBefore == 0 && s.NextProtocolSwitchOn == 0
	}
	return s.NextProtocolVoteBefore <= s.NextProtocolSwitchOn &&
		r < s.NextProtocolSwitchOn &&
		(r < s.NextProtocolVoteBefore || uint64(s.NextProtocolApprovals) >= p.threshold)
}

func verifArbitraryState(p verifUpgradeParams) (UpgradeState, basics.Round) {
	var s UpgradeState
	s.CurrentProtocol = verifVersions[1+vr.Choice("cur", 2)]
	s.NextProtocol = verifVersions[vr.Choice("next", 3)]
	s.NextProtocolApprovals = basics.Round(vr.U64("approvals"))
	s.NextProtocolVoteBefore = basics.Round(vr.U64("votebefore"))
	s.NextProtocolSwitchOn = basics.Round(vr.U64("switchon"))
	r := basics.Round(vr.U64("round"))
	vr.Assume(r >= 1 && r < 1<<60)
	vr.Assume(s.NextProtocolSwitchOn < 1<<61 && s.NextProtocolVoteBefore < 1<<61 && s.NextProtocolApprovals < 1<<61)
	// s is the state recorded in block r-1
	vr.Assume(verifInv(s, r-1, p))
	return s, r
}

func verifArbitraryVote() UpgradeVote {
	var v UpgradeVote
	v.UpgradePropose = verifVersions[vr.Choice("propose", 3)]
	v.UpgradeDelay = basics.Round(vr.U64("delay"))
	v.UpgradeApprove = vr.Bool("approve")
	return v
}

//verif:harness prop=C26 reach=done,accepted,rejected,switched,proposed,cleared unwind=12
func VerifC26Step() {
	p := verifInstallConsensus()
	s, r := verifArbitraryState(p)
	vote := verifArbitraryVote()
	// an "upgrade" to the version already running is indistinguishable from no
	// switch; no protocol lists itself in ApprovedUpgrades
	vr.Assume(s.NextProtocol != s.CurrentProtocol && vote.UpgradePropose != s.CurrentProtocol)
	res, err := s.applyUpgradeVote(r, vote)

	// --- rejections the property demands ---
	if vote.UpgradePropose != "" && s.NextProtocol != "" {
		vr.Assert("c26.second-proposal-rejected", err != nil)
	}
	if vote.UpgradeApprove && s.NextProtocol == "" && vote.UpgradePropose == "" {
		vr.Assert("c26.approve-without-proposal-rejected", err != nil)
	}
	if vote.UpgradeApprove && s.NextProtocol != "" && r >= s.NextProtocolVoteBefore {
		vr.Assert("c26.approve-after-deadline-rejected", err != nil)
	}
	if vote.UpgradePropose != "" {
		d := uint64(vote.UpgradeDelay)
		if d > p.maxWait || d < p.minWait {
			vr.Assert("c26.delay-out-of-range-rejected", err != nil)
		}
	}
	if vote.UpgradePropose == "" && vote.UpgradeDelay != 0 {
		vr.Assert("c26.delay-without-proposal-rejected", err != nil)
	}
	if err != nil {
		vr.Reach("rejected")
		vr.Reach("done")
		return
	}
	vr.Reach("accepted")

	// --- invariant preserved ---
	vr.Assert("c26.invariant-preserved", verifInv(res, r, p))

	// --- the protocol changes only at the announced round of an approved proposal ---
	if res.CurrentProtocol != s.CurrentProtocol {
		vr.Reach("switched")
		vr.Assert("c26.switch.only-pending", s.NextProtocol != "" && res.CurrentProtocol == s.NextProtocol)
		vr.Assert("c26.switch.at-announced-round", r == s.NextProtocolSwitchOn)
		vr.Assert("c26.switch.approved", uint64(s.NextProtocolApprovals) >= p.threshold)
		vr.Assert("c26.switch.after-deadline", s.NextProtocolVoteBefore <= r)
		vr.Assert("c26.switch.clears", res.NextProtocol == "" && res.NextProtocolSwitchOn == 0)
	} else if s.NextProtocol != "" && r == s.NextProtocolSwitchOn && uint64(s.NextProtocolApprovals) >= p.threshold {
		vr.Assert("c26.switch.must-happen", false)
	}

	// --- pending proposal bookkeeping ---
	if s.NextProtocol != "" && res.NextProtocol != "" {
		vr.Assert("c26.pending.unchanged", res.NextProtocol == s.NextProtocol &&
			res.NextProtocolVoteBefore == s.NextProtocolVoteBefore && res.NextProtocolSwitchOn == s.NextProtocolSwitchOn)
		want := s.NextProtocolApprovals
		if vote.UpgradeApprove {
			want++
		}
		vr.Assert("c26.pending.approvals", res.NextProtocolApprovals == want)
	}
	if s.NextProtocol == "" && res.NextProtocol != "" {
		vr.Reach("proposed")
		d := uint64(vote.UpgradeDelay)
		if d == 0 {
			d = p.defWait
		}
		vr.Assert("c26.proposal.recorded", res.NextProtocol == vote.UpgradePropose &&
			uint64(res.NextProtocolVoteBefore) == uint64(r)+p.voteRounds &&
			uint64(res.NextProtocolSwitchOn) == uint64(r)+p.voteRounds+d)
	}
	if s.NextProtocol != "" && res.NextProtocol == "" && res.CurrentProtocol == s.CurrentProtocol {
		vr.Reach("cleared")
		// a pending proposal disappears without a switch only at its deadline, for lack of approvals
		vr.Assert("c26.cleared.only-failed", r == s.NextProtocolVoteBefore && uint64(res.NextProtocolApprovals) == 0)
	}
	vr.Reach("done")
}

// Block hashes are collision-free uninterpreted functions of the header's
// identifying fields (round and upgrade state are enough to tell the headers in
// these harnesses apart).
func verifStubHeaderHash(bh BlockHeader) BlockHash {
	return BlockHash(vr.Hash32("blockhash", []byte(bh.GenesisID), verifU64Bytes(uint64(bh.Round)), verifU64Bytes(uint64(bh.TimeStamp)), bh.Branch[:], []byte(bh.CurrentProtocol), []byte(bh.NextProtocol)))
}

func verifU64Bytes(x uint64) []byte {
	return []byte{byte(x >> 56), byte(x >> 48), byte(x >> 40), byte(x >> 32), byte(x >> 24), byte(x >> 16), byte(x >> 8), byte(x)}
}

// PreCheck accepts a header only if its upgrade state is exactly what
// applyUpgradeVote computes from the previous header and this header's vote.
//verif:harness prop=C26 reach=done,accepted unwind=12
//verif:stub (github.com/algorand/go-algorand/data/bookkeeping.BlockHeader).Hash = verifStubHeaderHash
func VerifC26PreCheck() {
	p := verifInstallConsensus()
	s, r := verifArbitraryState(p)
	var prev, bh BlockHeader
	prev.Round = r - 1
	prev.UpgradeState = s
	prev.GenesisID = "g"
	bh.GenesisID = "g"
	bh.Round = basics.Round(vr.U64("bh.round"))
	bh.UpgradeVote = verifArbitraryVote()
	bh.UpgradeState.CurrentProtocol = verifVersions[1+vr.Choice("bh.cur", 2)]
	bh.UpgradeState.NextProtocol = verifVersions[vr.Choice("bh.next", 3)]
	bh.UpgradeState.NextProtocolApprovals = basics.Round(vr.U64("bh.approvals"))
	bh.UpgradeState.NextProtocolVoteBefore = basics.Round(vr.U64("bh.votebefore"))
	bh.UpgradeState.NextProtocolSwitchOn = basics.Round(vr.U64("bh.switchon"))
	if vr.Bool("goodbranch") {
		bh.Branch = prev.Hash()
	} else {
		vr.Fill("branch", bh.Branch[:])
	}
	err := bh.PreCheck(prev)
	if err == nil {
		vr.Reach("accepted")
		want, werr := s.applyUpgradeVote(r, bh.UpgradeVote)
		vr.Assert("c26.precheck.vote-valid", werr == nil)
		vr.Assert("c26.precheck.state-follows", bh.UpgradeState == want)
		vr.Assert("c26.precheck.round", bh.Round == r)
		vr.Assert("c29.precheck.branch", bh.Branch == prev.Hash())
	}
	vr.Reach("done")
}
