//go:build verif

package bookkeeping

import (
	"errors"

	"github.com/algorand/go-algorand/config"
	"github.com/algorand/go-algorand/crypto"
	"github.com/algorand/go-algorand/crypto/merklearray"
	"github.com/algorand/go-algorand/data/transactions"
	vr "github.com/algorand/go-algorand/internal/verifrt"
	"github.com/algorand/go-algorand/protocol"
)

// C29 (block part): Block.ContentsMatchHeader is true exactly when every
// transaction commitment the block's protocol enables equals the commitment
// recomputed from the block's payset, and the ones it does not enable are zero.
//
// Idealisation: the three commitment constructions are collision-free
// uninterpreted functions of the payset (flat hash; Merkle tree / vector
// commitment roots - the tree construction itself is C37's subject). The stubs
// sit below paysetCommit*/PaysetCommit/ContentsMatchHeader, which run for real:
// Payset.CommitFlat and Block.TxnMerkleTree{,SHA256,SHA512} (returning a tree
// whose single level holds the root, an empty tree, or an error).

var verifC29B struct {
	treeErr   [3]bool // TxnMerkleTree, ...SHA256, ...SHA512 fail
	emptyTree bool    // trees have no levels (the code maps that to an all-zero root)
}

var errVerifC29B = errors.New("verif: tree construction failed")

// verifC29PaysetBytes: the harness paysets differ only in these fields.
func verifC29PaysetBytes(p transactions.Payset) []byte {
	b := []byte{byte(len(p))}
	for i := range p {
		hg := byte(0)
		if p[i].HasGenesisID {
			hg = 1
		}
		b = append(b, p[i].Txn.Note[0], hg)
	}
	return b
}

func verifC29Root(name string, p transactions.Payset) []byte {
	h := vr.Hash32(name, verifC29PaysetBytes(p))
	return h[:]
}

func verifC29Root512(p transactions.Payset) []byte {
	lo := vr.Hash32("vc512.lo", verifC29PaysetBytes(p))
	hi := vr.Hash32("vc512.hi", verifC29PaysetBytes(p))
	return append(lo[:], hi[:]...)
}

func verifC29Tree(k int, root []byte) (*merklearray.Tree, error) {
	if verifC29B.treeErr[k] {
		return nil, errVerifC29B
	}
	if verifC29B.emptyTree {
		return &merklearray.Tree{}, nil
	}
	return &merklearray.Tree{Levels: []merklearray.Layer{{crypto.GenericDigest(root)}}}, nil
}

func verifC29StubCommitFlat(payset transactions.Payset) crypto.Digest {
	return crypto.Digest(vr.Hash32("flat", verifC29PaysetBytes(payset)))
}
func verifC29StubMerkle(block Block) (*merklearray.Tree, error) {
	return verifC29Tree(0, verifC29Root("merkle", block.Payset))
}
func verifC29StubMerkle256(block Block) (*merklearray.Tree, error) {
	return verifC29Tree(1, verifC29Root("vc256", block.Payset))
}
func verifC29StubMerkle512(block Block) (*merklearray.Tree, error) {
	return verifC29Tree(2, verifC29Root512(block.Payset))
}

func verifC29Payset(label string, n int) transactions.Payset {
	labels := [3]string{".t0", ".t1", ".t2"}
	var p transactions.Payset
	for i := 0; i < n; i++ {
		var t transactions.SignedTxnInBlock
		t.Txn.Type = protocol.PaymentTx
		t.Txn.Note = []byte{vr.U8(label + labels[i] + ".note")}
		t.HasGenesisID = vr.Bool(label + labels[i] + ".hgi")
		p = append(p, t)
	}
	return p
}

type verifC29Proto struct {
	commitType       config.PaysetCommitType
	sha256, sha512   bool
}

func verifC29InstallProto() verifC29Proto {
	var q verifC29Proto
	q.commitType = config.PaysetCommitType(vr.Choice("PaysetCommit", 4)) // 0 unsupported, 1 flat, 2 merkle, 3 unknown
	q.sha256 = vr.Bool("EnableSHA256TxnCommitmentHeader")
	q.sha512 = vr.Bool("EnableSha512BlockHash")
	var cp config.ConsensusParams
	cp.PaysetCommit = q.commitType
	cp.EnableSHA256TxnCommitmentHeader = q.sha256
	cp.EnableSha512BlockHash = q.sha512
	config.Consensus = config.ConsensusProtocols{"vA": cp}
	return q
}

// verifC29Expected is the oracle: the commitments this protocol demands for
// payset p; ok=false when no commitment can be computed at all.
func verifC29Expected(q verifC29Proto, p transactions.Payset) (want TxnCommitments, ok bool) {
	switch q.commitType {
	case config.PaysetCommitFlat:
		want.NativeSha512_256Commitment = crypto.Digest(vr.Hash32("flat", verifC29PaysetBytes(p)))
	case config.PaysetCommitMerkle:
		if verifC29B.treeErr[0] {
			return want, false
		}
		if !verifC29B.emptyTree {
			copy(want.NativeSha512_256Commitment[:], verifC29Root("merkle", p))
		}
	default:
		return want, false
	}
	if q.sha256 {
		if verifC29B.treeErr[1] {
			return want, false
		}
		if !verifC29B.emptyTree {
			copy(want.Sha256Commitment[:], verifC29Root("vc256", p))
		}
	}
	if q.sha512 {
		if verifC29B.treeErr[2] {
			return want, false
		}
		if !verifC29B.emptyTree {
			copy(want.Sha512Commitment[:], verifC29Root512(p))
		}
	}
	return want, true
}

func verifC29Commitments(label string) TxnCommitments {
	var c TxnCommitments
	vr.Fill(label+".txn", c.NativeSha512_256Commitment[:])
	vr.Fill(label+".txn256", c.Sha256Commitment[:])
	vr.Fill(label+".txn512", c.Sha512Commitment[:])
	return c
}

//verif:harness prop=C29 reach=done,match,mismatch,unknown-proto,no-commitment,flat,merkle,with256,with512 unwind=12 budget=200 thorough.budget=1200
//verif:stub (github.com/algorand/go-algorand/data/transactions.Payset).CommitFlat = verifC29StubCommitFlat
//verif:stub (github.com/algorand/go-algorand/data/bookkeeping.Block).TxnMerkleTree = verifC29StubMerkle
//verif:stub (github.com/algorand/go-algorand/data/bookkeeping.Block).TxnMerkleTreeSHA256 = verifC29StubMerkle256
//verif:stub (github.com/algorand/go-algorand/data/bookkeeping.Block).TxnMerkleTreeSHA512 = verifC29StubMerkle512
func VerifC29ContentsMatchHeader() {
	q := verifC29InstallProto()
	verifC29B.treeErr = [3]bool{vr.Bool("treeerr"), vr.Bool("tree256err"), vr.Bool("tree512err")}
	n := vr.Choice("n", vr.Param(3, 4))
	verifC29B.emptyTree = false
	if n == 0 {
		verifC29B.emptyTree = vr.Bool("emptytree")
	}
	var b Block
	b.Payset = verifC29Payset("p", n)
	b.TxnCommitments = verifC29Commitments("hdr")
	known := vr.Bool("knownproto")
	b.CurrentProtocol = "vX"
	if known {
		b.CurrentProtocol = "vA"
	}

	got := b.ContentsMatchHeader()

	want, ok := verifC29Expected(q, b.Payset)
	if !known {
		vr.Reach("unknown-proto")
		vr.Assert("c29.contents.unknown-protocol-never-matches", !got)
	} else if !ok {
		vr.Reach("no-commitment")
		vr.Assert("c29.contents.uncomputable-never-matches", !got)
	} else {
		if got {
			vr.Reach("match")
			if q.commitType == config.PaysetCommitFlat {
				vr.Reach("flat")
			} else {
				vr.Reach("merkle")
			}
			if q.sha256 {
				vr.Reach("with256")
			}
			if q.sha512 {
				vr.Reach("with512")
			}
		} else {
			vr.Reach("mismatch")
		}
		vr.Assert("c29.contents.native-commitment-binds", vr.Implies(got, b.TxnCommitments.NativeSha512_256Commitment == want.NativeSha512_256Commitment))
		vr.Assert("c29.contents.sha256-commitment-binds", vr.Implies(got, b.TxnCommitments.Sha256Commitment == want.Sha256Commitment))
		vr.Assert("c29.contents.sha512-commitment-binds", vr.Implies(got, b.TxnCommitments.Sha512Commitment == want.Sha512Commitment))
		vr.Assert("c29.contents.match-iff-all-equal", got == (b.TxnCommitments == want))
	}
	vr.Reach("done")
}

// Two different paysets never both match the same header (consequence of the
// above with collision-free commitments; stated directly as the property reads:
// "dropping, adding, reordering or altering" a transaction invalidates the block).
//verif:harness prop=C29 reach=done,both-match,altered unwind=12 budget=200 thorough.budget=1200
//verif:stub (github.com/algorand/go-algorand/data/transactions.Payset).CommitFlat = verifC29StubCommitFlat
//verif:stub (github.com/algorand/go-algorand/data/bookkeeping.Block).TxnMerkleTree = verifC29StubMerkle
//verif:stub (github.com/algorand/go-algorand/data/bookkeeping.Block).TxnMerkleTreeSHA256 = verifC29StubMerkle256
//verif:stub (github.com/algorand/go-algorand/data/bookkeeping.Block).TxnMerkleTreeSHA512 = verifC29StubMerkle512
func VerifC29ContentsAltered() {
	verifC29InstallProto()
	verifC29B.treeErr = [3]bool{}
	verifC29B.emptyTree = false
	n1 := vr.Choice("n1", 3)
	n2 := vr.Choice("n2", 3)
	var b1, b2 Block
	b1.CurrentProtocol, b2.CurrentProtocol = "vA", "vA"
	b1.Payset = verifC29Payset("p", n1)
	b2.Payset = verifC29Payset("q", n2)
	b1.TxnCommitments = verifC29Commitments("hdr")
	b2.TxnCommitments = b1.TxnCommitments
	same := n1 == n2
	if same {
		for i := 0; i < n1; i++ {
			same = same && b1.Payset[i].Txn.Note[0] == b2.Payset[i].Txn.Note[0] && b1.Payset[i].HasGenesisID == b2.Payset[i].HasGenesisID
		}
	}
	if !same {
		vr.Reach("altered")
	}
	if b1.ContentsMatchHeader() && b2.ContentsMatchHeader() {
		vr.Reach("both-match")
		vr.Assert("c29.contents.header-binds-one-payset", same)
	}
	vr.Reach("done")
}
