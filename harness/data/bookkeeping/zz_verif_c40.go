//go:build verif

package bookkeeping

import (
	"github.com/algorand/go-algorand/data/basics"
	vr "github.com/algorand/go-algorand/internal/verifrt"
	"github.com/algorand/go-algorand/protocol"
)

// C40 for the block-header components RewardsState and UpgradeVote: the
// generated MarshalMsg produces exactly the tag-derived canonical encoding
// (reference encoder: zz_verif_c40ref.go, a copy of the one in
// harness/agreement) and UnmarshalMsg(MarshalMsg(x)) == x with nothing left
// over. Field contents symbolic; the zero / non-zero pattern of the fields
// (which decides omission) and the integers' magnitude classes enumerated:
// quick tier single-field patterns, thorough every subset.

func verifC40Pattern(n int) *verifRefFill {
	f := &verifRefFill{full: vr.Param(0, 1) == 1}
	if vr.Param(0, 1) == 1 {
		f.mask = verifRefSubset(vr.Choice("subset", 1<<uint(n)), n)
		f.rot = vr.Choice("rot", 5)
		return f
	}
	p := vr.Choice("pattern", verifRefPatterns(n))
	f.mask = verifRefPattern(p, n)
	f.rot = p
	return f
}

func verifC40Canonical(enc []byte, ref *verifRefVal, msgsize int, isZero bool) {
	vr.Assert("c40.canonical", verifRefSame(enc, ref.encode(nil)))
	vr.Assert("c40.msgsize", len(enc) <= msgsize)
	vr.Assert("c40.iszero", isZero == ref.zero())
	if ref.zero() {
		vr.Reach("zero-value")
	}
	all := true
	for i := range ref.subs {
		if ref.omit[i] && ref.subs[i].empty(ref.omitArr) {
			all = false
		}
	}
	if all {
		vr.Reach("all-fields")
	} else {
		vr.Reach("some-omitted")
	}
}

// block.go: RewardsState `codec:",omitempty,omitemptyarray"`: fees, rwd, earn, rate, frac, rwcalr
//
//verif:harness prop=C40 reach=done,zero-value,all-fields,some-omitted unwind=16 budget=120 thorough.budget=900
func VerifC40RewardsState() {
	f := verifC40Pattern(6)
	var v, w RewardsState
	f.bytes("fees", v.FeeSink[:])
	f.bytes("rwd", v.RewardsPool[:])
	v.RewardsLevel = f.u64("earn")
	v.RewardsRate = f.u64("rate")
	v.RewardsResidue = f.u64("frac")
	v.RewardsRecalculationRound = basics.Round(f.u64("rwcalr"))
	ref := verifRefS(",omitempty,omitemptyarray",
		"fees", verifRefB(v.FeeSink[:]),
		"rwd", verifRefB(v.RewardsPool[:]),
		"earn", verifRefU(v.RewardsLevel),
		"rate", verifRefU(v.RewardsRate),
		"frac", verifRefU(v.RewardsResidue),
		"rwcalr", verifRefU(uint64(v.RewardsRecalculationRound)))
	enc := v.MarshalMsg(nil)
	verifC40Canonical(enc, ref, v.Msgsize(), v.MsgIsZero())
	rem, err := w.UnmarshalMsg(enc)
	vr.Assert("c40.roundtrip", err == nil && len(rem) == 0 && w == v)
	vr.Reach("done")
}

// block.go: UpgradeVote `codec:",omitempty,omitemptyarray"`: upgradeprop (string,
// at most bounds.MaxConsensusVersionLen = 128 bytes), upgradedelay, upgradeyes.
// The proposal string: lengths 0, 1, 31, 32 (fixstr / str8 boundary), 128 (the
// bound), contents symbolic.
//
//verif:harness prop=C40 reach=done,zero-value,all-fields,some-omitted,longest-version unwind=16 budget=120 thorough.budget=900
func VerifC40UpgradeVote() {
	var v, w UpgradeVote
	n := []int{0, 1, 31, 32, 128}[vr.Choice("len", 5)]
	if n > 0 {
		b := make([]byte, n)
		for i := range b {
			b[i] = 'a'
		}
		b[0], b[n-1] = vr.U8("prop"), vr.U8("prop")
		v.UpgradePropose = protocol.ConsensusVersion(string(b))
	}
	f := &verifRefFill{mask: verifRefSubset(vr.Choice("subset", 4), 2), rot: vr.Choice("rot", vr.Param(2, 5))}
	v.UpgradeDelay = basics.Round(f.u64("delay"))
	v.UpgradeApprove = f.boolean("yes")
	ref := verifRefS(",omitempty,omitemptyarray",
		"upgradeprop", verifRefSt(string(v.UpgradePropose)),
		"upgradedelay", verifRefU(uint64(v.UpgradeDelay)),
		"upgradeyes", verifRefBo(v.UpgradeApprove))
	enc := v.MarshalMsg(nil)
	verifC40Canonical(enc, ref, v.Msgsize(), v.MsgIsZero())
	rem, err := w.UnmarshalMsg(enc)
	vr.Assert("c40.roundtrip", err == nil && len(rem) == 0 && w == v)
	if n == 128 {
		vr.Reach("longest-version")
	}
	vr.Reach("done")
}
