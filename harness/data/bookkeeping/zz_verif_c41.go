//go:build verif

package bookkeeping

import (
	vr "github.com/algorand/go-algorand/internal/verifrt"
	"github.com/algorand/msgp/msgp"
)

// C41 for bookkeeping.RewardsState (part of every block header): decoding
// untrusted bytes either succeeds or returns an error, never crashes; what is
// accepted decodes to what the bytes denote. Same method and checks as
// harness/agreement/zz_verif_c41.go (the generator in zz_verif_c41gen.go is a
// copy); RewardsState has no slices, so there is no allocbound obligation.
//
// Code under test: (*RewardsState).UnmarshalMsgWithState, basics.Address /
// crypto.Digest / basics.Round codecs, the real msgp readers.

// block.go: RewardsState: fees, rwd (addresses), earn, rate, frac, rwcalr (declaration order)
func verifC41SchemaRewards() *verifC41Node {
	return verifC41S("fees", verifC41B(32), "rwd", verifC41B(32), "earn", verifC41U(), "rate", verifC41U(), "frac", verifC41U(), "rwcalr", verifC41U())
}

type verifC41Case struct {
	g        *verifC41Gen
	in       []byte
	st       msgp.UnmarshalState
	trailing int
	mode     int
}

// modes: 0 one node under attack; 1 truncations of the canonical encoding;
// 2 depth limit (see harness/agreement/zz_verif_c41.go)
func verifC41Input(s *verifC41Node, attackDepth, depthNeeded int) *verifC41Case {
	c := &verifC41Case{st: msgp.DefaultUnmarshalState}
	g := &verifC41Gen{attack: -1, maxDepth: attackDepth, ok: true, full: vr.Param(0, 1) == 1}
	c.g = g
	c.mode = vr.Choice("mode", 3)
	switch c.mode {
	case 0:
		g.attack = vr.Choice("node", s.count(0, attackDepth))
		g.gen(s, "", 0)
		c.in = g.out
		if g.ok && g.attack%2 == 1 {
			c.in = append(c.in, vr.U8("trailing"))
			c.trailing = 1
		}
	case 1:
		g.zeroPre = true
		g.gen(s, "", 0)
		k := len(g.out)
		if i := vr.Choice("cut", len(g.cuts)+1); i < len(g.cuts) {
			k = g.cuts[i]
		}
		if k < len(g.out) {
			g.reject("truncated")
		}
		c.in = g.out[:k:k]
	case 2:
		g.zeroPre = true
		g.gen(s, "", 0)
		c.in = g.out
		d := vr.Choice("depth", depthNeeded+2)
		c.st.AllowableDepth = uint64(d)
		if d < depthNeeded {
			g.reject("depth-exceeded")
		}
	}
	return c
}

func (c *verifC41Case) verdict(rem []byte, err error, k *verifC41Check) {
	g := c.g
	if c.mode == 2 {
		vr.Assert("c41.depth", (err == nil) == g.ok)
	} else {
		vr.Assert("c41.accepts-exactly-wellformed", (err == nil) == g.ok)
	}
	if err == nil {
		n := len(rem)
		vr.Assert("c41.remaining-is-suffix", n == c.trailing && n <= len(c.in) && verifC41Same(rem, c.in[len(c.in)-n:]))
		vr.Assert("c41.decoded-value", k.diff == 0 && k.lens)
		switch c.mode {
		case 0:
			vr.Reach("accepted-variant")
		case 1:
			vr.Reach("accepted-canonical")
		case 2:
			vr.Reach("depth-sufficient")
		}
	} else {
		switch c.mode {
		case 0:
			vr.Reach("rejected-variant")
		case 1:
			vr.Reach("truncated")
		case 2:
			vr.Reach("depth-exceeded")
		}
	}
	vr.Reach("done")
}

//verif:harness prop=C41 reach=done,accepted-variant,rejected-variant,accepted-canonical,truncated,depth-sufficient,depth-exceeded unwind=16 budget=200 thorough.budget=1500
func VerifC41RewardsState() {
	c := verifC41Input(verifC41SchemaRewards(), 9, 2)
	var v RewardsState
	if !c.g.zeroPre {
		for i := range v.FeeSink {
			v.FeeSink[i], v.RewardsPool[i] = verifC41PreB, verifC41PreB
		}
		v.RewardsLevel, v.RewardsRate, v.RewardsResidue, v.RewardsRecalculationRound = verifC41PreU, verifC41PreU, verifC41PreU, verifC41PreU
	}
	rem, err := v.UnmarshalMsgWithState(c.in, c.st)
	k := &verifC41Check{g: c.g, lens: true}
	k.b(".fees", v.FeeSink[:])
	k.b(".rwd", v.RewardsPool[:])
	k.u(".earn", v.RewardsLevel)
	k.u(".rate", v.RewardsRate)
	k.u(".frac", v.RewardsResidue)
	k.u(".rwcalr", uint64(v.RewardsRecalculationRound))
	c.verdict(rem, err, k)
}
