//go:build verif

package bookkeeping

import (
	"github.com/algorand/go-algorand/config"
	"github.com/algorand/go-algorand/config/bounds"
	"github.com/algorand/go-algorand/crypto"
	"github.com/algorand/go-algorand/data/basics"
	vr "github.com/algorand/go-algorand/internal/verifrt"
	"github.com/algorand/go-algorand/protocol"
)

// C40 for bookkeeping.BlockHeader (the object block hashes are computed over).
//
// Code under test: the generated (*BlockHeader).MarshalMsg / MsgIsZero / Msgsize /
// UnmarshalMsg with everything inlined into it (the embedded TxnCommitments,
// RewardsState, UpgradeState, UpgradeVote, ParticipationUpdates), the map
// StateProofTracking with StateProofTrackingData values, basics.MicroAlgos' hand
// written codec, crypto.Digest / Sha512Digest / GenericDigest, committee.Seed,
// protocol.ConsensusVersion, protocol.StateProofType, and the real msgp runtime.
//
// All 34 encoded fields are "leaves" of one flat msgpack map (embedded structs
// are inlined by the codec and inherit BlockHeader's `,omitempty,omitemptyarray`):
// 15 unsigned integers, 1 signed, 10 fixed byte arrays, 4 strings, 1 bool, the
// two participation-update lists and the state-proof map. Whether a leaf is
// zero decides whether its key is present; a "non-zero" list has ONE element,
// a non-zero map one entry (protocol.NumStateProofTypes = 1 is the allocbound).
//
// Quick tier: all leaves non-zero, all zero, each single leaf non-zero (in
// particular exactly one of the two sibling lists non-empty, either way
// round), the even / the odd leaves non-zero (38 patterns), and separately the
// list shapes {empty-but-not-nil, two elements} for each list alone and for
// both, and the empty-but-not-nil map. Thorough: plus each single leaf zero,
// and every third non-zero leaf symbolic.
//
//   c40.canonical    MarshalMsg(x) == the tag-derived reference encoding
//   c40.msgsize      len(MarshalMsg(x)) <= x.Msgsize()
//   c40.iszero       x.MsgIsZero() <=> every leaf zero
//   c40.roundtrip    UnmarshalMsg(MarshalMsg(x)) succeeds, nothing left over, all
//                    34 fields equal (lists and map element-wise; an omitted empty
//                    list/map comes back nil)

// Cost: the engine re-solves the whole path condition at every symbolic branch,
// so a path with all 34 leaves symbolic costs minutes. Quick tier: a non-zero
// leaf is symbolic (any value of its class) for every fourth leaf, rotating
// with the pattern; the others take a boundary value of their class (lowest /
// highest alternately: 1, 127, 128, 255, 256, 65535, 65536, 2^32-1, 2^32,
// 2^64-1). Thorough: every third leaf.
func verifC40HdrSym(f *verifRefFill) bool {
	return (f.leaf+f.rot)%vr.Param(4, 3) == 0
}

func verifC40HdrU64(f *verifRefFill, label string) uint64 {
	if !f.next() {
		return 0
	}
	c := (f.leaf + f.rot) % 5
	lo := []uint64{1, 1 << 7, 1 << 8, 1 << 16, 1 << 32}[c]
	hi := []uint64{1<<7 - 1, 1<<8 - 1, 1<<16 - 1, 1<<32 - 1, ^uint64(0)}[c]
	if !verifC40HdrSym(f) {
		if f.leaf%2 == 0 {
			return lo
		}
		return hi
	}
	x := vr.U64(label)
	vr.Assume(x >= lo && x <= hi)
	return x
}

func verifC40HdrBytes(f *verifRefFill, label string, b []byte) {
	if !f.next() {
		return
	}
	if !verifC40HdrSym(f) {
		b[f.leaf%len(b)] = byte(f.leaf + 1) // one non-zero byte, position varies
		return
	}
	b[0], b[len(b)-1] = vr.U8(label), vr.U8(label)
	vr.Assume(!verifRefAllZero(b))
}

// non-zero string of a length class (1, 31, 32, 128 - the last is the allocbound
// of GenesisID and of ConsensusVersion), first and last byte symbolic
func verifC40HdrString(f *verifRefFill, label string) string {
	if !f.next() {
		return ""
	}
	n := []int{1, 31, 32, 128}[(f.leaf+f.rot)%4]
	b := make([]byte, n)
	for i := range b {
		b[i] = 'a' + byte(i%26)
	}
	if verifC40HdrSym(f) {
		b[0], b[n-1] = vr.U8(label), vr.U8(label)
	}
	return string(b)
}

func verifC40HdrI64(f *verifRefFill, label string) int64 {
	if !f.next() {
		return 0
	}
	if !verifC40HdrSym(f) {
		return []int64{1<<7 - 1, 1 << 16, 1<<63 - 1, -32, -1<<7 - 1, -1 << 63}[(f.leaf+f.rot)%6]
	}
	x := vr.I64(label)
	switch (f.leaf + f.rot) % 6 {
	case 0:
		vr.Assume(x >= 1 && x < 1<<7)
	case 1:
		vr.Assume(x >= 1<<16 && x < 1<<32)
	case 2:
		vr.Assume(x >= 1<<32)
	case 3:
		vr.Assume(x >= -32 && x < 0)
	case 4:
		vr.Assume(x >= -1<<15 && x < -1<<7)
	case 5:
		vr.Assume(x < -1<<31)
	}
	return x
}

func verifC40HdrAddr(label string) basics.Address {
	var a basics.Address
	a[0], a[31] = vr.U8(label), vr.U8(label)
	return a
}

// list shapes: 0 nil, 1 one element, 2 empty but not nil, 3 two elements
func verifC40HdrList(label string, shape int) []basics.Address {
	switch shape {
	case 1:
		return []basics.Address{verifC40HdrAddr(label)}
	case 2:
		return []basics.Address{}
	case 3:
		return []basics.Address{verifC40HdrAddr(label), verifC40HdrAddr(label)}
	}
	return nil
}

// shapes of the three collections when they are "non-zero" by the pattern: 1
func verifC40HdrFill(f *verifRefFill, h *BlockHeader, rmvShape, absShape, sptShape int) {
	h.Round = basics.Round(verifC40HdrU64(f, "rnd"))
	verifC40HdrBytes(f, "prev", h.Branch[:])
	verifC40HdrBytes(f, "prev512", h.Branch512[:])
	verifC40HdrBytes(f, "seed", h.Seed[:])
	verifC40HdrBytes(f, "txn", h.NativeSha512_256Commitment[:])
	verifC40HdrBytes(f, "txn256", h.Sha256Commitment[:])
	verifC40HdrBytes(f, "txn512", h.Sha512Commitment[:])
	h.TimeStamp = verifC40HdrI64(f, "ts")
	h.GenesisID = verifC40HdrString(f, "gen")
	verifC40HdrBytes(f, "gh", h.GenesisHash[:])
	verifC40HdrBytes(f, "prp", h.Proposer[:])
	h.FeesCollected.Raw = verifC40HdrU64(f, "fc")
	h.Bonus.Raw = verifC40HdrU64(f, "bi")
	h.ProposerPayout.Raw = verifC40HdrU64(f, "pp")
	verifC40HdrBytes(f, "fees", h.FeeSink[:])
	verifC40HdrBytes(f, "rwd", h.RewardsPool[:])
	h.RewardsLevel = verifC40HdrU64(f, "earn")
	h.RewardsRate = verifC40HdrU64(f, "rate")
	h.RewardsResidue = verifC40HdrU64(f, "frac")
	h.RewardsRecalculationRound = basics.Round(verifC40HdrU64(f, "rwcalr"))
	h.CurrentProtocol = protocol.ConsensusVersion(verifC40HdrString(f, "proto"))
	h.NextProtocol = protocol.ConsensusVersion(verifC40HdrString(f, "nextproto"))
	h.NextProtocolApprovals = basics.Round(verifC40HdrU64(f, "nextyes"))
	h.NextProtocolVoteBefore = basics.Round(verifC40HdrU64(f, "nextbefore"))
	h.NextProtocolSwitchOn = basics.Round(verifC40HdrU64(f, "nextswitch"))
	h.UpgradePropose = protocol.ConsensusVersion(verifC40HdrString(f, "upgradeprop"))
	h.UpgradeDelay = basics.Round(verifC40HdrU64(f, "upgradedelay"))
	h.UpgradeApprove = f.boolean("upgradeyes")
	h.TxnCounter = verifC40HdrU64(f, "tc")
	if f.next() {
		switch sptShape {
		case 1: // one entry: key, commitment (4 bytes), weight, round symbolic
			k := protocol.StateProofType(vr.U64("spt.key"))
			d := StateProofTrackingData{
				StateProofVotersCommitment:  crypto.GenericDigest{vr.U8("spt.v"), 2, 3, vr.U8("spt.v")},
				StateProofOnlineTotalWeight: basics.MicroAlgos{Raw: vr.U64("spt.t")},
				StateProofNextRound:         basics.Round(vr.U64("spt.n")),
			}
			// magnitude classes of the three integers: fixed per path
			vr.Assume(k < 1<<7)
			vr.Assume(d.StateProofOnlineTotalWeight.Raw >= 1<<32)
			vr.Assume(d.StateProofNextRound >= 1<<8 && d.StateProofNextRound < 1<<16)
			h.StateProofTracking = map[protocol.StateProofType]StateProofTrackingData{k: d}
		case 2:
			h.StateProofTracking = map[protocol.StateProofType]StateProofTrackingData{}
		}
	}
	if f.next() {
		h.ExpiredParticipationAccounts = verifC40HdrList("partupdrmv", rmvShape)
	}
	if f.next() {
		h.AbsentParticipationAccounts = verifC40HdrList("partupdabs", absShape)
	}
	h.Load = basics.Micros(verifC40HdrU64(f, "ld"))
	h.CongestionTax = basics.Micros(verifC40HdrU64(f, "ct"))
}

const verifC40HdrLeaves = 34

func verifC40HdrAddrList(l []basics.Address) *verifRefVal {
	s := verifRefSl(l == nil)
	for i := range l {
		s.subs = append(s.subs, verifRefB(l[i][:]))
	}
	return s
}

// block.go. BlockHeader `codec:",omitempty,omitemptyarray"`; the embedded structs'
// fields are inlined into the same map and take BlockHeader's options:
//   rnd prev prev512 seed | TxnCommitments: txn txn256 txn512 | ts
//   gen,allocbound=... gh prp fc bi pp | RewardsState: fees rwd earn rate frac rwcalr
//   | UpgradeState: proto nextproto nextyes nextbefore nextswitch
//   | UpgradeVote: upgradeprop upgradedelay upgradeyes | tc spt,allocbound=...
//   | ParticipationUpdates: partupdrmv,allocbound=... partupdabs,allocbound=... | ld ct
// basics.MicroAlgos encodes as its Raw integer (hand-written codec / Selfer).
// StateProofTrackingData `codec:",omitempty,omitemptyarray"`: v ([]byte), t, n.
func verifC40HdrRef(h *BlockHeader, sptKeys []protocol.StateProofType) *verifRefVal {
	spt := &verifRefVal{kind: verifRefMap, isNil: h.StateProofTracking == nil}
	for _, k := range sptKeys {
		d := h.StateProofTracking[k]
		spt.mkeys = append(spt.mkeys, verifRefU(uint64(k)))
		spt.subs = append(spt.subs, verifRefS(",omitempty,omitemptyarray",
			"v", verifRefBy([]byte(d.StateProofVotersCommitment)),
			"t", verifRefU(d.StateProofOnlineTotalWeight.Raw),
			"n", verifRefU(uint64(d.StateProofNextRound))))
	}
	return verifRefS(",omitempty,omitemptyarray",
		"rnd", verifRefU(uint64(h.Round)),
		"prev", verifRefB(h.Branch[:]),
		"prev512", verifRefB(h.Branch512[:]),
		"seed", verifRefB(h.Seed[:]),
		"txn", verifRefB(h.NativeSha512_256Commitment[:]),
		"txn256", verifRefB(h.Sha256Commitment[:]),
		"txn512", verifRefB(h.Sha512Commitment[:]),
		"ts", verifRefI(h.TimeStamp),
		"gen,allocbound=bounds.MaxGenesisIDLen", verifRefSt(h.GenesisID),
		"gh", verifRefB(h.GenesisHash[:]),
		"prp", verifRefB(h.Proposer[:]),
		"fc", verifRefU(h.FeesCollected.Raw),
		"bi", verifRefU(h.Bonus.Raw),
		"pp", verifRefU(h.ProposerPayout.Raw),
		"fees", verifRefB(h.FeeSink[:]),
		"rwd", verifRefB(h.RewardsPool[:]),
		"earn", verifRefU(h.RewardsLevel),
		"rate", verifRefU(h.RewardsRate),
		"frac", verifRefU(h.RewardsResidue),
		"rwcalr", verifRefU(uint64(h.RewardsRecalculationRound)),
		"proto", verifRefSt(string(h.CurrentProtocol)),
		"nextproto", verifRefSt(string(h.NextProtocol)),
		"nextyes", verifRefU(uint64(h.NextProtocolApprovals)),
		"nextbefore", verifRefU(uint64(h.NextProtocolVoteBefore)),
		"nextswitch", verifRefU(uint64(h.NextProtocolSwitchOn)),
		"upgradeprop", verifRefSt(string(h.UpgradePropose)),
		"upgradedelay", verifRefU(uint64(h.UpgradeDelay)),
		"upgradeyes", verifRefBo(h.UpgradeApprove),
		"tc", verifRefU(h.TxnCounter),
		"spt,allocbound=protocol.NumStateProofTypes", spt,
		"partupdrmv,allocbound=bounds.MaxProposedExpiredOnlineAccounts", verifC40HdrAddrList(h.ExpiredParticipationAccounts),
		"partupdabs,allocbound=bounds.MaxMarkAbsent", verifC40HdrAddrList(h.AbsentParticipationAccounts),
		"ld", verifRefU(uint64(h.Load)),
		"ct", verifRefU(uint64(h.CongestionTax)))
}

func verifC40HdrSameList(a, b []basics.Address) bool {
	if len(a) != len(b) {
		return false
	}
	same := true
	for i := range a {
		if a[i] != b[i] {
			same = false
		}
	}
	// an omitted (empty) list comes back nil; a present one is not nil
	return same && (len(b) != 0 || a == nil)
}

func verifC40HdrSame(a, b *BlockHeader, sptKeys []protocol.StateProofType) bool {
	same := a.Round == b.Round && a.Branch == b.Branch && a.Branch512 == b.Branch512 && a.Seed == b.Seed &&
		a.TxnCommitments == b.TxnCommitments && a.TimeStamp == b.TimeStamp && a.GenesisID == b.GenesisID &&
		a.GenesisHash == b.GenesisHash && a.Proposer == b.Proposer && a.FeesCollected == b.FeesCollected &&
		a.Bonus == b.Bonus && a.ProposerPayout == b.ProposerPayout && a.RewardsState == b.RewardsState &&
		a.UpgradeState == b.UpgradeState && a.UpgradeVote == b.UpgradeVote && a.TxnCounter == b.TxnCounter &&
		a.Load == b.Load && a.CongestionTax == b.CongestionTax &&
		verifC40HdrSameList(a.ExpiredParticipationAccounts, b.ExpiredParticipationAccounts) &&
		verifC40HdrSameList(a.AbsentParticipationAccounts, b.AbsentParticipationAccounts) &&
		len(a.StateProofTracking) == len(b.StateProofTracking) && (len(b.StateProofTracking) != 0 || a.StateProofTracking == nil)
	for _, k := range sptKeys {
		x, ok := a.StateProofTracking[k]
		y := b.StateProofTracking[k]
		if !ok || x.StateProofOnlineTotalWeight != y.StateProofOnlineTotalWeight || x.StateProofNextRound != y.StateProofNextRound ||
			!verifRefSame(x.StateProofVotersCommitment, y.StateProofVotersCommitment) {
			same = false
		}
	}
	return same
}

func verifC40HdrCheck(h *BlockHeader) {
	var keys []protocol.StateProofType
	for k := range h.StateProofTracking {
		keys = append(keys, k)
	}
	enc := h.MarshalMsg(nil)
	verifC40Canonical(enc, verifC40HdrRef(h, keys), h.Msgsize(), h.MsgIsZero())
	var w BlockHeader
	rem, err := w.UnmarshalMsg(enc)
	vr.Assert("c40.roundtrip", err == nil && len(rem) == 0 && verifC40HdrSame(&w, h, keys))
	if len(h.ExpiredParticipationAccounts) != 0 && len(h.AbsentParticipationAccounts) == 0 {
		vr.Reach("only-expired-list")
	}
	if len(h.ExpiredParticipationAccounts) == 0 && len(h.AbsentParticipationAccounts) != 0 {
		vr.Reach("only-absent-list")
	}
	if len(h.StateProofTracking) != 0 {
		vr.Reach("spt-entry")
	}
}

func verifC40HdrInit() {
	// the lists' allocbounds (checked by the decoder) are set by package config's initializer
	_ = config.Consensus[protocol.ConsensusCurrentVersion]
	vr.Assert("c40.bound-initialised", bounds.MaxMarkAbsent > 0 && bounds.MaxProposedExpiredOnlineAccounts > 0)
}

// zero / non-zero patterns over the 34 leaves
//
//verif:harness prop=C40 reach=done,zero-value,all-fields,some-omitted,only-expired-list,only-absent-list,spt-entry unwind=16 budget=280 thorough.budget=4000
func VerifC40BlockHeaderPatterns() {
	verifC40HdrInit()
	n := verifC40HdrLeaves
	// 0 all non-zero, 1 all zero, 2..n+1 one leaf zero (thorough only), n+2..2n+1
	// one leaf non-zero, 2n+2 / 2n+3 the even / the odd leaves non-zero
	p := vr.Choice("pattern", vr.Param(n+4, 2*n+4))
	if vr.Param(0, 1) == 0 && p >= 2 {
		p += n
	}
	f := &verifRefFill{mask: verifRefPattern(p, n), rot: p}
	if p >= 2*n+2 {
		for i := range f.mask {
			f.mask[i] = i%2 == p%2
		}
	}
	var h BlockHeader
	verifC40HdrFill(f, &h, 1, 1, 1)
	verifC40HdrCheck(&h)
	vr.Reach("done")
}

// shapes of the collections: each list alone and both, empty-but-not-nil and
// with two elements, the map empty-but-not-nil; the other leaves all zero or
// all non-zero
//
//verif:harness prop=C40 reach=done,some-omitted,only-expired-list,only-absent-list,empty-not-nil unwind=16 budget=200 thorough.budget=2400
func VerifC40BlockHeaderShapes() {
	verifC40HdrInit()
	shapes := [][3]int{{2, 0, 0}, {0, 2, 0}, {2, 2, 0}, {3, 0, 0}, {0, 3, 0}, {3, 3, 0}, {3, 2, 0}, {1, 3, 2}, {0, 0, 2}}
	s := shapes[vr.Choice("shape", len(shapes))]
	p := vr.Choice("pattern", 2)
	f := &verifRefFill{mask: verifRefPattern(p, verifC40HdrLeaves), rot: vr.Choice("rot", vr.Param(1, 2))}
	// the collections follow the shape, not the pattern (leaves 29, 30, 31)
	f.mask[29], f.mask[30], f.mask[31] = s[2] != 0, s[0] != 0, s[1] != 0
	var h BlockHeader
	verifC40HdrFill(f, &h, s[0], s[1], s[2])
	if s[0] == 2 || s[1] == 2 || s[2] == 2 {
		vr.Reach("empty-not-nil")
	}
	verifC40HdrCheck(&h)
	vr.Reach("done")
}
