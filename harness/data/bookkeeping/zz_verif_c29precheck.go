//go:build verif

package bookkeeping

import (
	"github.com/algorand/go-algorand/config"
	"github.com/algorand/go-algorand/crypto"
	"github.com/algorand/go-algorand/data/basics"
	vr "github.com/algorand/go-algorand/internal/verifrt"
)

// C29 (chain link part): BlockHeader.PreCheck(prev) == nil implies the header
// links to prev: Round = prev.Round+1, Branch = prev.Hash(), Branch512 =
// prev.Hash512() when EnableSha512BlockHash (and zero otherwise), the genesis
// id is present and equal to prev's (when prev has one), the genesis hash is
// present and equal to prev's when SupportGenesisHash (and absent otherwise).
// Conversely a header satisfying these (all other header fields at values the
// other PreCheck rules accept: no upgrade vote, zero timestamps, bonus, load
// and congestion tax) is accepted. The upgrade rules are C26's subject
// (zz_verif_c26.go).
//
// Idealisation: BlockHeader.Hash / Hash512 are collision-free uninterpreted
// functions of the header fields these harness headers differ in.

var verifC29IDs = []string{"", "g", "h"}

func verifC29HeaderFields(bh BlockHeader) [][]byte {
	return [][]byte{[]byte(bh.GenesisID), bh.GenesisHash[:], verifC29U64(uint64(bh.Round)), bh.Branch[:], bh.Branch512[:], []byte(bh.CurrentProtocol)}
}

func verifC29StubHash(bh BlockHeader) BlockHash {
	return BlockHash(vr.Hash32("blockhash", verifC29HeaderFields(bh)...))
}

func verifC29StubHash512(bh BlockHeader) crypto.Sha512Digest {
	var d crypto.Sha512Digest
	lo := vr.Hash32("blockhash512.lo", verifC29HeaderFields(bh)...)
	hi := vr.Hash32("blockhash512.hi", verifC29HeaderFields(bh)...)
	copy(d[:32], lo[:])
	copy(d[32:], hi[:])
	return d
}

func verifC29Header(label string) BlockHeader {
	var bh BlockHeader
	bh.CurrentProtocol = "vA"
	bh.Round = basics.Round(vr.U64(label + ".round"))
	bh.GenesisID = verifC29IDs[vr.Choice(label+".genesisid", 3)]
	bh.GenesisHash[7] = vr.U8(label + ".genesishash") // 0 = absent
	vr.Fill(label+".branch", bh.Branch[:])
	vr.Fill(label+".branch512", bh.Branch512[:])
	return bh
}

//verif:harness prop=C29 reach=done,accepted,rejected,with512,without512,withgh,withoutgh,prev-no-genesis unwind=12 budget=200 thorough.budget=1200
//verif:stub (github.com/algorand/go-algorand/data/bookkeeping.BlockHeader).Hash = verifC29StubHash
//verif:stub (github.com/algorand/go-algorand/data/bookkeeping.BlockHeader).Hash512 = verifC29StubHash512
func VerifC29PreCheckLink() {
	var cp config.ConsensusParams
	cp.EnableSha512BlockHash = vr.Bool("EnableSha512BlockHash")
	cp.SupportGenesisHash = vr.Bool("SupportGenesisHash")
	cp.MaxVersionStringLen = 8
	config.Consensus = config.ConsensusProtocols{"vA": cp}

	prev := verifC29Header("prev")
	vr.Assume(prev.Round < 1<<62)
	bh := verifC29Header("bh")
	if !vr.Bool("knownproto") {
		bh.CurrentProtocol = "vX"
	}

	err := bh.PreCheck(prev)

	zero, zero512 := crypto.Digest{}, crypto.Sha512Digest{}
	wantBranch := BlockHash(vr.Hash32("blockhash", verifC29HeaderFields(prev)...))
	var wantBranch512 crypto.Sha512Digest
	if cp.EnableSha512BlockHash {
		lo := vr.Hash32("blockhash512.lo", verifC29HeaderFields(prev)...)
		hi := vr.Hash32("blockhash512.hi", verifC29HeaderFields(prev)...)
		copy(wantBranch512[:32], lo[:])
		copy(wantBranch512[32:], hi[:])
	}
	linkOK := bh.Round == prev.Round+1
	linkOK = linkOK && bh.Branch == wantBranch
	linkOK = linkOK && bh.Branch512 == wantBranch512
	idOK := bh.GenesisID != ""
	if prev.GenesisID != "" {
		idOK = idOK && bh.GenesisID == prev.GenesisID
	}
	ghOK := bh.GenesisHash == zero
	if cp.SupportGenesisHash {
		ghOK = bh.GenesisHash != zero
		if prev.GenesisHash != zero {
			ghOK = ghOK && bh.GenesisHash == prev.GenesisHash
		}
	}

	if err == nil {
		vr.Reach("accepted")
		if cp.EnableSha512BlockHash {
			vr.Reach("with512")
		} else {
			vr.Reach("without512")
			vr.Assert("c29.precheck.branch512-absent-when-disabled", bh.Branch512 == zero512)
		}
		if cp.SupportGenesisHash {
			vr.Reach("withgh")
		} else {
			vr.Reach("withoutgh")
		}
		if prev.GenesisID == "" && prev.GenesisHash == zero {
			vr.Reach("prev-no-genesis")
		}
		vr.Assert("c29.precheck.known-protocol", bh.CurrentProtocol == "vA")
		vr.Assert("c29.precheck.next-round", bh.Round == prev.Round+1)
		vr.Assert("c29.precheck.branch-is-prev-hash", bh.Branch == wantBranch)
		vr.Assert("c29.precheck.branch512-is-prev-hash512", bh.Branch512 == wantBranch512)
		vr.Assert("c29.precheck.genesis-id", idOK)
		vr.Assert("c29.precheck.genesis-hash", ghOK)
	} else {
		vr.Reach("rejected")
		// completeness: a properly linked header of a known protocol is accepted
		vr.Assert("c29.precheck.linked-header-accepted", !(bh.CurrentProtocol == "vA" && linkOK && idOK && ghOK))
	}
	vr.Reach("done")
}

func verifC29U64(x uint64) []byte {
	return []byte{byte(x >> 56), byte(x >> 48), byte(x >> 40), byte(x >> 32), byte(x >> 24), byte(x >> 16), byte(x >> 8), byte(x)}
}
