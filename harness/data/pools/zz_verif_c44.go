//go:build verif

package pools

import (
	"errors"

	"github.com/algorand/go-algorand/data/basics"
	"github.com/algorand/go-algorand/data/transactions"
	vr "github.com/algorand/go-algorand/internal/verifrt"
	"github.com/algorand/go-algorand/ledger"
	"github.com/algorand/go-algorand/ledger/ledgercore"
	"github.com/algorand/go-algorand/protocol"
)

// C44 (lemma level, admission half): TransactionPool.Remember -> checkPendingQueueSize,
// remember -> ingest -> checkSufficientFee / computeFeePerByte,
// addToPendingBlockEvaluator(Once), rememberCommit(false) - all real - on a pool
// built by hand around a stub BlockEvaluator (the interface the pool declares).
//
// What is proved for ONE Remember call on an arbitrary consistent pool state:
//
//  Remember returns nil ==>
//   (eval)  the evaluator's TransactionGroup was called with exactly this group
//           (same transactions, same order, empty ApplyData) and its LAST call
//           returned nil; it was called once, or twice when the first answer was
//           ledgercore.ErrNoSpace (then the pool counted one more whole pending
//           block and reset the evaluator's byte count once);
//   (alive) every member has LastValid >= evaluator.Round() + numPendingWholeBlocks
//           (the round in which it could be proposed at the earliest), exact integers;
//   (fee)   unless it is the free state proof transaction (singleton, type stpf,
//           sender StateProofSender, fee 0): every member pays
//           Fee >= feePerByte * encodedLength with
//           feePerByte = m * f^max(n-1,0), m = feeThresholdMultiplier (1 if that is 0
//           and n > 1), f = expFeeFactor, n = numPendingWholeBlocks, exact integers;
//   (size)  len(pendingTxids) + len(group) <= txPoolMaxSize held before, or the
//           group is a single state proof transaction and the pool had not used
//           its one overflow slot yet (and now has);
//   (added) afterwards pendingTxGroups is the old list plus this group appended
//           exactly once, pendingTxids is the old map plus exactly the group's ids
//           (mapped to the group's transactions), nothing stays staged.
//  Remember returns an error ==> pendingTxGroups and pendingTxids are unchanged and
//           nothing stays staged in rememberedTxGroups / rememberedTxids.
//
// "Accepted on top of the pending groups" is delegated to the evaluator (its
// answers are arbitrary here; its duplicate detection is C11).
//
// Stubs: (*ledger.Ledger).Latest (the pool holds a concrete *ledger.Ledger: nil
// here) returns a round below the evaluator's, so the wait for OnNewBlock is not
// entered (condition variables are outside the engine); Transaction.ID is a
// collision-free function of a per-transaction tag; SignedTxn.GetEncodedLength is
// an arbitrary per-transaction length.
// Not covered: OnNewBlock / recomputeBlockEvaluator / AssembleBlock (the "after new
// blocks nothing stale remains" half), the fee multiplier update, wrap-around of
// the 64-bit fee threshold arithmetic (inputs are bounded so that it cannot wrap).

const verifC44MaxTx = 5 // transactions in a scenario: up to 3 pending + 2 new

type verifC44State struct {
	latest basics.Round
	encLen [verifC44MaxTx]int
}

var verifC44 *verifC44State

func verifC44Tag(t transactions.Transaction) int { return int(t.Note[0]) }

func verifStubC44Latest(l *ledger.Ledger) basics.Round { return verifC44.latest }

func verifStubC44ID(tx transactions.Transaction) transactions.Txid {
	var id transactions.Txid
	id[0] = 0x44
	id[1] = tx.Note[0]
	return id
}

func verifStubC44EncodedLength(s transactions.SignedTxn) int {
	return verifC44.encLen[verifC44Tag(s.Txn)]
}

var errVerifC44Rejected = errors.New("verif: evaluator rejects the group")

// verifC44Eval is the stub block evaluator: it records what it is given and
// answers from a script of arbitrary results.
type verifC44Eval struct {
	round   basics.Round
	script  [2]uint8 // 0 = accept, 1 = ErrNoSpace, 2 = another error
	calls   int
	resets  int
	groups  [][]transactions.SignedTxnWithAD
	answers []error
}

func (e *verifC44Eval) TestTransactionGroup(txgroup []transactions.SignedTxn) error { return nil }
func (e *verifC44Eval) Round() basics.Round                                         { return e.round }
func (e *verifC44Eval) PaySetSize() int                                             { return 0 }
func (e *verifC44Eval) GenerateBlock(addrs []basics.Address) (*ledgercore.UnfinishedBlock, error) {
	return nil, nil
}
func (e *verifC44Eval) ResetTxnBytes() { e.resets++ }
func (e *verifC44Eval) TransactionGroup(txads ...transactions.SignedTxnWithAD) error {
	var err error
	if e.calls < len(e.script) {
		switch e.script[e.calls] {
		case 1:
			err = ledgercore.ErrNoSpace
		case 2:
			err = errVerifC44Rejected
		}
	} else {
		err = errVerifC44Rejected
	}
	e.calls++
	e.groups = append(e.groups, append([]transactions.SignedTxnWithAD(nil), txads...))
	e.answers = append(e.answers, err)
	return err
}

func verifC44Txn(tag int, l string) transactions.SignedTxn {
	var s transactions.SignedTxn
	s.Txn.Note = []byte{byte(tag)}
	s.Txn.Type = protocol.PaymentTx
	s.Txn.Sender[0] = byte(0x10 + tag)
	s.Txn.Fee.Raw = vr.U64(l + ".fee")
	s.Txn.FirstValid = basics.Round(vr.U64(l + ".fv"))
	s.Txn.LastValid = basics.Round(vr.U64(l + ".lv"))
	return s
}

func verifC44SameTxn(a, b transactions.SignedTxn) bool {
	return len(a.Txn.Note) == 1 && len(b.Txn.Note) == 1 && a.Txn.Note[0] == b.Txn.Note[0] &&
		a.Txn.Type == b.Txn.Type && a.Txn.Sender == b.Txn.Sender && a.Txn.Fee == b.Txn.Fee &&
		a.Txn.FirstValid == b.Txn.FirstValid && a.Txn.LastValid == b.Txn.LastValid
}

func verifC44SameGroup(got []transactions.SignedTxnWithAD, want []transactions.SignedTxn) bool {
	if len(got) != len(want) {
		return false
	}
	for i := range want {
		ad := got[i].ApplyData
		if !verifC44SameTxn(got[i].SignedTxn, want[i]) || ad.ConfigAsset != 0 || ad.ApplicationID != 0 ||
			ad.ClosingAmount.Raw != 0 || ad.SenderRewards.Raw != 0 {
			return false
		}
	}
	return true
}

//verif:harness prop=C44 reach=done,accepted,rejected,retried,overflow-slot,free-stateproof unwind=20 budget=280 thorough.budget=1500
//verif:stub (*github.com/algorand/go-algorand/ledger.Ledger).Latest = verifStubC44Latest
//verif:stub (github.com/algorand/go-algorand/data/transactions.Transaction).ID = verifStubC44ID
//verif:stub (github.com/algorand/go-algorand/data/transactions.SignedTxn).GetEncodedLength = verifStubC44EncodedLength
func VerifC44Remember() {
	g := &verifC44State{}
	verifC44 = g
	// encoded lengths: fixed, distinct per transaction (the engine sends every
	// product of two symbolic 64-bit values to the slow integer back end; the fee
	// multiplier stays symbolic, lengths and the growth factor are concrete)
	for i := range g.encLen {
		g.encLen[i] = 100 + 37*i
	}

	// --- the pool: an arbitrary consistent state ---
	ev := &verifC44Eval{round: basics.Round(vr.U64("eval.round"))}
	vr.Assume(ev.round >= 1 && ev.round < 1<<62)
	ev.script[0] = vr.U8("eval.answer0")
	ev.script[1] = vr.U8("eval.answer1")
	vr.Assume(ev.script[0] <= 2 && ev.script[1] <= 2)
	// OnNewBlock has processed the latest block (otherwise ingest waits on a condition variable)
	g.latest = basics.Round(vr.U64("ledger.latest"))
	vr.Assume(g.latest < ev.round)

	pool := &TransactionPool{
		pendingTxids:    map[transactions.Txid]transactions.SignedTxn{},
		rememberedTxids: map[transactions.Txid]transactions.SignedTxn{},
	}
	pool.cond.L = &pool.mu
	pool.assemblyCond.L = &pool.assemblyMu
	pool.txPoolMaxSize = int(vr.U8("pool.maxsize"))
	vr.Assume(pool.txPoolMaxSize <= 4)
	// bounded so that the 64-bit threshold arithmetic cannot wrap (stated bound):
	// factor 2 (the shipped default; thorough tier 1..3), multiplier < 2^32, <= 3 whole blocks
	pool.expFeeFactor = 2
	if vr.Param(0, 1) == 1 {
		pool.expFeeFactor = uint64(1 + vr.Choice("pool.expfactor", 3))
	}
	pool.feeThresholdMultiplier = uint64(vr.U32("pool.multiplier"))
	pool.numPendingWholeBlocks = basics.Round(vr.U8("pool.wholeblocks"))
	vr.Assume(pool.numPendingWholeBlocks <= 3)
	pool.stateproofOverflowed = vr.Bool("pool.overflowed")
	pool.shutdown = vr.Bool("pool.shutdown")
	if !vr.Bool("pool.noevaluator") {
		pool.pendingBlockEvaluator = ev
	}
	// pending content: 0..3 earlier groups (sizes 1, 2), ids consistent with the groups
	npend := vr.Choice("pool.pending", 3) // 0, 1 or 3 pending transactions
	if npend >= 1 {
		pool.pendingTxGroups = append(pool.pendingTxGroups, []transactions.SignedTxn{verifC44Txn(0, "p0")})
	}
	if npend >= 2 {
		pool.pendingTxGroups = append(pool.pendingTxGroups, []transactions.SignedTxn{verifC44Txn(1, "p1"), verifC44Txn(2, "p2")})
	}
	for _, grp := range pool.pendingTxGroups {
		for _, t := range grp {
			pool.pendingTxids[t.ID()] = t
		}
	}

	// --- the group to remember ---
	group := []transactions.SignedTxn{verifC44Txn(3, "t0")}
	if vr.Bool("group.pair") {
		group = append(group, verifC44Txn(4, "t1"))
	} else if vr.Bool("group.stateproof") {
		group[0].Txn.Type = protocol.StateProofTx
		if vr.Bool("group.stateproof.sender") {
			group[0].Txn.Sender = transactions.StateProofSender
		}
	}

	// --- snapshot ---
	oldGroups := append([][]transactions.SignedTxn(nil), pool.pendingTxGroups...)
	oldIDs := len(pool.pendingTxids)
	n0 := uint64(pool.numPendingWholeBlocks)
	overflowed0 := pool.stateproofOverflowed

	err := pool.Remember(group)

	// --- nothing staged, old entries untouched, in every outcome ---
	vr.Assert("c44.nothing-staged", len(pool.rememberedTxGroups) == 0 && len(pool.rememberedTxids) == 0)
	vr.Assert("c44.old-groups-kept", len(pool.pendingTxGroups) >= len(oldGroups))
	for i := range oldGroups {
		same := len(pool.pendingTxGroups[i]) == len(oldGroups[i])
		for j := range oldGroups[i] {
			same = same && verifC44SameTxn(pool.pendingTxGroups[i][j], oldGroups[i][j])
			kept, ok := pool.pendingTxids[oldGroups[i][j].ID()]
			same = same && ok && verifC44SameTxn(kept, oldGroups[i][j])
		}
		vr.Assert("c44.old-groups-kept", same)
	}

	if err != nil {
		vr.Reach("rejected")
		vr.Assert("c44.error-changes-nothing", len(pool.pendingTxGroups) == len(oldGroups) && len(pool.pendingTxids) == oldIDs)
		for _, t := range group {
			_, ok := pool.pendingTxids[t.ID()]
			vr.Assert("c44.error-changes-nothing", !ok)
		}
		vr.Reach("done")
		return
	}
	vr.Reach("accepted")
	single := len(group) == 1
	isStateProof := single && group[0].Txn.Type == protocol.StateProofTx

	// (eval)
	vr.Assert("c44.pool-usable", pool.pendingBlockEvaluator != nil && !pool.shutdown)
	vr.Assert("c44.eval.called", ev.calls == 1 || ev.calls == 2)
	last := ev.calls - 1
	vr.Assert("c44.eval.accepted-last", ev.answers[last] == nil)
	vr.Assert("c44.eval.exact-group", verifC44SameGroup(ev.groups[last], group))
	if ev.calls == 2 {
		vr.Reach("retried")
		vr.Assert("c44.eval.retry-only-on-nospace", ev.answers[0] == ledgercore.ErrNoSpace && verifC44SameGroup(ev.groups[0], group))
		vr.Assert("c44.eval.retry-counts-a-block", uint64(pool.numPendingWholeBlocks) == n0+1 && ev.resets == 1)
	} else {
		vr.Assert("c44.eval.no-retry-state", uint64(pool.numPendingWholeBlocks) == n0 && ev.resets == 0)
	}

	// (alive) against the final number of whole pending blocks
	for _, t := range group {
		earliest := vr.ZU(uint64(ev.round)).Add(vr.ZU(uint64(pool.numPendingWholeBlocks)))
		vr.Assert("c44.alive", vr.ZU(uint64(t.Txn.LastValid)).Ge(earliest))
	}

	// (fee) exact integers; n0 = whole pending blocks when the fee was checked
	free := isStateProof && group[0].Txn.Sender == transactions.StateProofSender && group[0].Txn.Fee.Raw == 0
	if free {
		vr.Reach("free-stateproof")
	} else {
		m := vr.ZU(pool.feeThresholdMultiplier)
		if pool.feeThresholdMultiplier == 0 && n0 > 1 {
			m = vr.ZU(1)
		}
		for i := uint64(1); i < n0; i++ {
			m = m.Mul(vr.ZU(pool.expFeeFactor))
		}
		for _, t := range group {
			need := m.Mul(vr.ZU(uint64(g.encLen[verifC44Tag(t.Txn)])))
			vr.Assert("c44.fee", vr.ZU(t.Txn.Fee.Raw).Ge(need))
		}
	}

	// (size)
	fits := oldIDs+len(group) <= pool.txPoolMaxSize
	if !fits {
		vr.Reach("overflow-slot")
	}
	vr.Assert("c44.size", fits || (isStateProof && !overflowed0 && pool.stateproofOverflowed))

	// (added) exactly once, ids present
	vr.Assert("c44.added.once", len(pool.pendingTxGroups) == len(oldGroups)+1)
	added := pool.pendingTxGroups[len(pool.pendingTxGroups)-1]
	vr.Assert("c44.added.is-group", len(added) == len(group))
	for i := range group {
		vr.Assert("c44.added.is-group", verifC44SameTxn(added[i], group[i]))
		kept, ok := pool.pendingTxids[group[i].ID()]
		vr.Assert("c44.added.ids", ok && verifC44SameTxn(kept, group[i]))
	}
	vr.Assert("c44.added.ids-count", len(pool.pendingTxids) == oldIDs+len(group))
	vr.Reach("done")
}
