//go:build verif

package catchup

import (
	"context"
	"errors"
	"time"

	"github.com/algorand/go-algorand/agreement"
	"github.com/algorand/go-algorand/config"
	"github.com/algorand/go-algorand/crypto"
	"github.com/algorand/go-algorand/data/basics"
	"github.com/algorand/go-algorand/data/bookkeeping"
	"github.com/algorand/go-algorand/data/committee"
	vr "github.com/algorand/go-algorand/internal/verifrt"
	"github.com/algorand/go-algorand/ledger/ledgercore"
	"github.com/algorand/go-algorand/logging"
	"github.com/algorand/go-algorand/network"
	"github.com/algorand/go-algorand/protocol"
	"github.com/algorand/go-algorand/util/execpool"
)

// C30: Service.fetchAndWrite(r) writes a block to the ledger only after
//   - Block.ContentsMatchHeader() returned true on THAT block (unless the
//     development switch CatchupBlockValidateMode bit 2 turns the check off),
//   - auth.Authenticate(block, cert) returned nil on THAT block and THAT
//     certificate (unless bit 1 turns it off),
//   - the receive on prevFetchCompleteChan completed (the previous round's
//     fetchAndWrite finished: writes happen in round order),
// and it writes at most once; a response failing a check is never written, no
// matter what the peers return (errors, missing blocks, bad contents, bad
// certificates, in any order over the retries).
//
// Model: the network fetch (innerFetch), the ledger, the authenticator, the
// peer selector and ContentsMatchHeader are recording fakes with adversarial
// (nondeterministic) answers; up to K fetch attempts (then no peer is left).
// Sequential model of the channels: lookbackComplete is closed (the lookback
// block is there); prevFetchCompleteChan either holds one completion signal, or
// is empty and the context is cancelled just before the write select (so that
// nothing blocks): then nothing may be written. pipelinedFetch's wiring of the
// channels across goroutines and timing are NOT covered.

const verifC30MaxAttempts = 3

type verifC30Ctx struct {
	done chan struct{}
	err  error
}

func (c *verifC30Ctx) Deadline() (time.Time, bool)       { return time.Time{}, false }
func (c *verifC30Ctx) Done() <-chan struct{}             { return c.done }
func (c *verifC30Ctx) Err() error                        { return c.err }
func (c *verifC30Ctx) Value(key interface{}) interface{} { return nil }
func (c *verifC30Ctx) cancel() {
	if c.err == nil {
		c.err = context.Canceled
		close(c.done)
	}
}

type verifC30World struct {
	attempts  int
	n         int
	kind      [verifC30MaxAttempts]int // 0 fetch error, 1 no block for round, 2 nil block (ledger has it), 3 block+cert
	cmhOK     [verifC30MaxAttempts]bool
	authOK    [verifC30MaxAttempts]bool
	blocks    [verifC30MaxAttempts]*bookkeeping.Block
	certs     [verifC30MaxAttempts]*agreement.Certificate
	prevChan  chan struct{}
	prevReady bool
	ctx       *verifC30Ctx
	paramsErr bool
	validErr  bool
	writeErr  int // 0 nil, 1 non sequential, 2 other
}

var verifC30 *verifC30World

var errVerifC30 = errors.New("verif: adversarial failure")

func verifC30BlockID(b *bookkeeping.Block) uint64 { return uint64(b.BlockHeader.TimeStamp) }

// --- stubs -------------------------------------------------------------

func verifC30StubInnerFetch(s *Service, ctx context.Context, r basics.Round, peer network.Peer) (*bookkeeping.Block, *agreement.Certificate, time.Duration, error) {
	w := verifC30
	k := w.n
	w.n++
	vr.Event("c30.fetch", uint64(k))
	switch w.kind[k] {
	case 0:
		return nil, nil, 0, errVerifC30
	case 1:
		return nil, nil, 0, noBlockForRoundError{round: r}
	case 2:
		return nil, nil, 0, nil
	}
	return w.blocks[k], w.certs[k], 0, nil
}

func verifC30StubContentsMatchHeader(b bookkeeping.Block) bool {
	id := uint64(b.BlockHeader.TimeStamp)
	ok := verifC30.cmhOK[id-1]
	okv := uint64(0)
	if ok {
		okv = 1
	}
	vr.Event("c30.cmh", id, okv)
	return ok
}

// errors.As for the error types fetchAndWrite asks about (the harness errors are never wrapped)
func verifC30StubErrorsAs(err error, target interface{}) bool {
	switch t := target.(type) {
	case *noBlockForRoundError:
		if e, ok := err.(noBlockForRoundError); ok {
			*t = e
			return true
		}
	case *ledgercore.ErrNonSequentialBlockEval:
		if e, ok := err.(ledgercore.ErrNonSequentialBlockEval); ok {
			*t = e
			return true
		}
	case *ledgercore.BlockInLedgerError:
		if e, ok := err.(ledgercore.BlockInLedgerError); ok {
			*t = e
			return true
		}
	case *protocol.Error:
		if e, ok := err.(protocol.Error); ok {
			*t = e
			return true
		}
	case *ledgercore.EvalPanicError:
		if e, ok := err.(ledgercore.EvalPanicError); ok {
			*t = e
			return true
		}
	}
	return false
}

type verifC30Auth struct{}

func (verifC30Auth) Authenticate(b *bookkeeping.Block, c *agreement.Certificate) error {
	id := verifC30BlockID(b)
	ok := verifC30.authOK[id-1]
	okv := uint64(0)
	if ok {
		okv = 1
	}
	vr.Event("c30.auth", id, uint64(c.Round), okv)
	if !ok {
		return errVerifC30
	}
	return nil
}
func (verifC30Auth) Quit() {}

type verifC30Selector struct{}

func (verifC30Selector) rankPeer(psp *peerSelectorPeer, rank int) (int, int) { return 0, 0 }
func (verifC30Selector) peerDownloadDurationToRank(psp *peerSelectorPeer, d time.Duration) int {
	// the last thing that happens before the write select: with no completion
	// signal from the previous round, the fetch is cancelled here
	if !verifC30.prevReady {
		verifC30.ctx.cancel()
	}
	return 0
}
func (verifC30Selector) getNextPeer() (*peerSelectorPeer, error) {
	if verifC30.n >= verifC30.attempts {
		return nil, errVerifC30
	}
	return &peerSelectorPeer{}, nil
}

type verifC30Ledger struct{}

func verifC30Closed() chan struct{} {
	c := make(chan struct{})
	close(c)
	return c
}

func (verifC30Ledger) NextRound() basics.Round                   { return 5 }
func (verifC30Ledger) Wait(basics.Round) chan struct{}           { return verifC30Closed() }
func (verifC30Ledger) Seed(basics.Round) (committee.Seed, error) { return committee.Seed{}, nil }
func (verifC30Ledger) LookupAgreement(basics.Round, basics.Address) (basics.OnlineAccountData, error) {
	return basics.OnlineAccountData{}, nil
}
func (verifC30Ledger) Circulation(basics.Round, basics.Round) (basics.MicroAlgos, error) {
	return basics.MicroAlgos{}, nil
}
func (verifC30Ledger) LookupDigest(basics.Round) (crypto.Digest, error) { return crypto.Digest{}, nil }
func (verifC30Ledger) ConsensusParams(basics.Round) (config.ConsensusParams, error) {
	if verifC30.paramsErr {
		return config.ConsensusParams{}, errVerifC30
	}
	return config.ConsensusParams{MaxBalLookback: 320}, nil
}
func (verifC30Ledger) ConsensusVersion(basics.Round) (protocol.ConsensusVersion, error) {
	return "vA", nil
}
func (verifC30Ledger) writeResult() error {
	switch verifC30.writeErr {
	case 1:
		return ledgercore.ErrNonSequentialBlockEval{EvaluatorRound: 7, LatestRound: 9}
	case 2:
		return errVerifC30
	}
	return nil
}
func (l verifC30Ledger) AddBlock(b bookkeeping.Block, c agreement.Certificate) error {
	vr.Event("c30.write", 0, uint64(b.BlockHeader.TimeStamp), uint64(c.Round), uint64(len(verifC30.prevChan)))
	return l.writeResult()
}
func (verifC30Ledger) EnsureBlock(b *bookkeeping.Block, c agreement.Certificate) {
	vr.Event("c30.write", 2, uint64(b.BlockHeader.TimeStamp), uint64(c.Round), uint64(len(verifC30.prevChan)))
}
func (verifC30Ledger) LastRound() basics.Round { return 4 }
func (verifC30Ledger) Block(basics.Round) (bookkeeping.Block, error) {
	return bookkeeping.Block{}, errVerifC30
}
func (verifC30Ledger) BlockHdr(basics.Round) (bookkeeping.BlockHeader, error) {
	return bookkeeping.BlockHeader{}, errVerifC30
}
func (verifC30Ledger) IsWritingCatchpointDataFile() bool { return false }
func (verifC30Ledger) IsBehindCommittingDeltas() bool    { return false }
func (verifC30Ledger) Validate(ctx context.Context, blk bookkeeping.Block, pool execpool.BacklogPool) (*ledgercore.ValidatedBlock, error) {
	vr.Event("c30.validate", uint64(blk.BlockHeader.TimeStamp), uint64(len(verifC30.prevChan)))
	if verifC30.validErr {
		return nil, errVerifC30
	}
	vb := ledgercore.MakeValidatedBlock(blk, ledgercore.StateDelta{})
	return &vb, nil
}
func (l verifC30Ledger) AddValidatedBlock(vb ledgercore.ValidatedBlock, c agreement.Certificate) error {
	b := vb.Block()
	vr.Event("c30.write", 1, uint64(b.BlockHeader.TimeStamp), uint64(c.Round), uint64(len(verifC30.prevChan)))
	return l.writeResult()
}
func (verifC30Ledger) WaitMem(r basics.Round) chan struct{} { return make(chan struct{}) }

// verifC30Before: some event `tag` with the given leading args happened before event index w.
func verifC30Before(tag string, w int, args ...uint64) bool {
	n := vr.EventCount(tag)
	found := false
	for i := 0; i < n; i++ {
		e := vr.EventIndex(tag, i)
		if e < w {
			match := true
			for j, a := range args {
				match = match && vr.EventArg(e, j) == a
			}
			found = found || match
		}
	}
	return found
}

//verif:harness prop=C30 reach=done,wrote,wrote-validated,no-write,retried,bad-contents,bad-cert,prev-not-complete,unchecked-mode unwind=16 budget=250 thorough.budget=1500
//verif:stub (*github.com/algorand/go-algorand/catchup.Service).innerFetch = verifC30StubInnerFetch
//verif:stub (github.com/algorand/go-algorand/data/bookkeeping.Block).ContentsMatchHeader = verifC30StubContentsMatchHeader
//verif:stub errors.As = verifC30StubErrorsAs
func VerifC30FetchAndWrite() {
	config.Consensus = config.ConsensusProtocols{"vA": config.ConsensusParams{}}
	w := &verifC30World{}
	verifC30 = w
	w.attempts = vr.Param(2, verifC30MaxAttempts)
	labels := [verifC30MaxAttempts]string{"a0", "a1", "a2"}
	r := basics.Round(7)
	for k := 0; k < w.attempts; k++ {
		w.kind[k] = vr.Choice(labels[k]+".response", 4)
		if w.kind[k] == 3 {
			w.cmhOK[k] = vr.Bool(labels[k] + ".contentsmatch")
			w.authOK[k] = vr.Bool(labels[k] + ".certauthenticates")
			b := &bookkeeping.Block{}
			b.BlockHeader.Round = r
			b.BlockHeader.TimeStamp = int64(k + 1) // identity of the block
			b.BlockHeader.CurrentProtocol = "vA"
			w.blocks[k] = b
			w.certs[k] = &agreement.Certificate{Round: basics.Round(100 + k)} // identity of the certificate
		}
	}
	w.prevReady = vr.Bool("prevfetchcomplete")
	w.prevChan = make(chan struct{}, 1)
	if w.prevReady {
		w.prevChan <- struct{}{}
	}
	w.paramsErr = vr.Bool("ledger.paramsfail")
	w.validErr = vr.Bool("ledger.validatefails")
	w.writeErr = vr.Choice("ledger.writeresult", 3)
	w.ctx = &verifC30Ctx{done: make(chan struct{})}

	var cfg config.Local
	mode := int(vr.U8("CatchupBlockValidateMode"))
	vr.Assume(mode < 16)
	cfg.CatchupBlockValidateMode = mode
	verifyCert := mode&1 == 0
	verifyPayset := mode&2 == 0
	validate := mode&12 != 0

	s := &Service{cfg: cfg, ledger: verifC30Ledger{}, auth: verifC30Auth{}, log: logging.Base()}
	s.ctx = &verifC30Ctx{} // service context: never cancelled (nil Done channel)

	err := s.fetchAndWrite(w.ctx, r, w.prevChan, verifC30Closed(), verifC30Selector{})

	writes := vr.EventCount("c30.write")
	vr.Assert("c30.at-most-one-write", writes <= 1)
	if w.n > 1 {
		vr.Reach("retried")
	}
	if !w.prevReady {
		vr.Reach("prev-not-complete")
		vr.Assert("c30.no-write-before-previous-round-completes", writes == 0 && vr.EventCount("c30.validate") == 0)
		vr.Assert("c30.not-reported-written", err != nil)
	}
	if writes == 0 {
		vr.Reach("no-write")
		vr.Assert("c30.success-means-written", err != nil)
		vr.Reach("done")
		return
	}
	vr.Reach("wrote")
	we := vr.EventIndex("c30.write", 0)
	kind, bid, cid, pending := vr.EventArg(we, 0), vr.EventArg(we, 1), vr.EventArg(we, 2), vr.EventArg(we, 3)
	vr.Assert("c30.write.never-ensureblock", kind != 2)
	vr.Assert("c30.write.after-previous-round-completed", w.prevReady && pending == 0)
	vr.Assert("c30.write.is-a-fetched-pair", bid >= 1 && bid <= uint64(w.n) && cid == 99+bid)
	vr.Assert("c30.write.is-the-last-response", bid == uint64(w.n))
	if verifyPayset {
		vr.Assert("c30.write.contents-matched-header", w.cmhOK[bid-1])
		vr.Assert("c30.write.preceded-by-contents-check", verifC30Before("c30.cmh", we, bid, 1))
	}
	if verifyCert {
		vr.Assert("c30.write.certificate-authenticated", w.authOK[bid-1])
		vr.Assert("c30.write.preceded-by-authenticate-on-same-pair", verifC30Before("c30.auth", we, bid, cid, 1))
	}
	if !verifyPayset || !verifyCert {
		vr.Reach("unchecked-mode")
	}
	if validate {
		vr.Reach("wrote-validated")
		vr.Assert("c30.write.validated-block-added", kind == 1 && !w.validErr)
		vr.Assert("c30.write.preceded-by-validate", verifC30Before("c30.validate", we, bid, 0))
	} else {
		vr.Assert("c30.write.addblock", kind == 0)
	}
	// every response that failed an enabled check was retried, not written
	for k := 0; k < w.n; k++ {
		if w.kind[k] == 3 && verifyPayset && !w.cmhOK[k] {
			vr.Reach("bad-contents")
			vr.Assert("c30.bad-contents-never-written", bid != uint64(k+1))
		}
		if w.kind[k] == 3 && verifyCert && !w.authOK[k] {
			vr.Reach("bad-cert")
			vr.Assert("c30.bad-certificate-never-written", bid != uint64(k+1))
		}
	}
	vr.Assert("c30.result-reflects-ledger", (err == nil) == (w.writeErr != 2))
	vr.Reach("done")
}
