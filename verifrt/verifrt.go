// Package verifrt is the runtime face of the /verif harnesses. Under the gosym
// engine every function here is intercepted and given symbolic meaning; natively
// (replay of counterexamples, translation validation) the Nondet functions read
// a value tape and Assert/Assume raise typed panics caught by Run.
//
// This package is injected by overlay at internal/verifrt; it is not part of
// the repository.
package verifrt

import (
	"crypto/sha512"
	"encoding/hex"
	"encoding/json"
	"fmt"
	"math/big"
	"os"
	"strings"
)

type TapeEntry struct {
	Label string `json:"label"`
	Kind  string `json:"kind"`
	Val   string `json:"val"`
}

type UFEntry struct {
	Name string `json:"name"`
	In   string `json:"in"`
	Out  string `json:"out"`
}

type Tape struct {
	Harness string      `json:"harness"`
	Entries []TapeEntry `json:"entries"`
	UF      []UFEntry   `json:"uf,omitempty"`
	Tier    string      `json:"tier,omitempty"`
}

type assumeFailed struct{}
type assertFailed struct{ tag string }
type tapeMismatch struct{ msg string }

var cur struct {
	tape   *Tape
	pos    int
	events []event
	tier   string
	recovered int
}

type event struct {
	tag  string
	args []uint64
}

func next(label, kind string) *big.Int {
	if cur.tape == nil {
		panic(tapeMismatch{"no tape installed"})
	}
	if cur.pos >= len(cur.tape.Entries) {
		cur.pos++
		return new(big.Int)
	}
	// Entries produced by engine-side stubs (contract stubs, uninterpreted
	// functions, modelled clocks) have no native consumer: skip forward to the
	// next entry carrying the requested label.
	for cur.pos < len(cur.tape.Entries) && cur.tape.Entries[cur.pos].Label != label {
		cur.pos++
	}
	if cur.pos >= len(cur.tape.Entries) {
		return new(big.Int)
	}
	e := cur.tape.Entries[cur.pos]
	cur.pos++
	v, ok := new(big.Int).SetString(e.Val, 10)
	if !ok {
		panic(tapeMismatch{"bad value " + e.Val})
	}
	return v
}

func U8(label string) uint8   { return uint8(next(label, "u8").Uint64()) }
func U16(label string) uint16 { return uint16(next(label, "u16").Uint64()) }
func U32(label string) uint32 { return uint32(next(label, "u32").Uint64()) }
func U64(label string) uint64 { return next(label, "u64").Uint64() }
func I64(label string) int64  { return int64(next(label, "u64").Uint64()) }
func Int(label string) int    { return int(next(label, "u64").Uint64()) }
func Bool(label string) bool  { return next(label, "bool").Sign() != 0 }

// Choice returns a value in [0,n); the engine explores every value.
func Choice(label string, n int) int {
	v := next(label, "u64").Uint64()
	if v >= uint64(n) {
		panic(assumeFailed{})
	}
	return int(v)
}

// Bytes returns a byte slice of nondeterministic length 0..maxLen (the engine
// case-splits on the length) and nondeterministic contents.
func Bytes(label string, maxLen int) []byte {
	n := next(label+".len", "u64").Uint64()
	if n > uint64(maxLen) {
		panic(assumeFailed{})
	}
	b := make([]byte, n)
	for i := range b {
		b[i] = uint8(next(label, "u8").Uint64())
	}
	return b
}

func String(label string, maxLen int) string { return string(Bytes(label, maxLen)) }

func BytesN(label string, n int) []byte {
	b := make([]byte, n)
	for i := range b {
		b[i] = uint8(next(label, "u8").Uint64())
	}
	return b
}

func Fill(label string, p []byte) {
	for i := range p {
		p[i] = uint8(next(label, "u8").Uint64())
	}
}

func Assume(c bool) {
	if !c {
		panic(assumeFailed{})
	}
}

func Assert(tag string, c bool) {
	if !c {
		panic(assertFailed{tag})
	}
}

// Concrete returns x; under the engine it forks over the feasible values of x
// so that x is a constant on each path.
func Concrete(x uint64) uint64 { return x }

func Reach(tag string)          {}
func Implies(a, b bool) bool    { return !a || b }
func Symbolic() bool            { return false }

// Tier-dependent bound: the engine (and the native runner) substitute the
// value for the tier being run.
func Param(quick, thorough int) int {
	if cur.tier == "thorough" {
		return thorough
	}
	return quick
}

func Event(tag string, args ...uint64) {
	cur.events = append(cur.events, event{tag, append([]uint64(nil), args...)})
}

func EventCount(tag string) int {
	n := 0
	for _, e := range cur.events {
		if e.tag == tag {
			n++
		}
	}
	return n
}

func EventIndex(tag string, k int) int {
	for i, e := range cur.events {
		if e.tag == tag {
			if k == 0 {
				return i
			}
			k--
		}
	}
	return -1
}

func EventArg(i, j int) uint64 {
	if i < 0 || i >= len(cur.events) || j >= len(cur.events[i].args) {
		return 0
	}
	return cur.events[i].args[j]
}

// Hash32 is a collision-free (injective) uninterpreted function under the
// engine. Natively it is SHA-512/256 of the length-prefixed parts, unless the
// tape carries an explicit input/output table from a solver model.
func Hash32(name string, parts ...[]byte) [32]byte {
	var in []byte
	for _, p := range parts {
		in = append(in, byte(len(p)>>24), byte(len(p)>>16), byte(len(p)>>8), byte(len(p)))
		in = append(in, p...)
	}
	if cur.tape != nil {
		key := hex.EncodeToString(in)
		for _, u := range cur.tape.UF {
			if u.Name == name && u.In == key {
				var out [32]byte
				b, _ := hex.DecodeString(u.Out)
				copy(out[:], b)
				return out
			}
		}
	}
	return sha512.Sum512_256(append([]byte(name+"\x00"), in...))
}

// UF64 is an uninterpreted function of its arguments (functional consistency only).
func UF64(name string, args ...uint64) uint64 {
	var in []byte
	for _, a := range args {
		for s := 56; s >= 0; s -= 8 {
			in = append(in, byte(a>>uint(s)))
		}
	}
	if cur.tape != nil {
		key := hex.EncodeToString(in)
		for _, u := range cur.tape.UF {
			if u.Name == name && u.In == key {
				b, _ := hex.DecodeString(u.Out)
				var r uint64
				for _, x := range b {
					r = r<<8 | uint64(x)
				}
				return r
			}
		}
	}
	h := sha512.Sum512_256(append([]byte(name+"\x00"), in...))
	var r uint64
	for _, x := range h[:8] {
		r = r<<8 | uint64(x)
	}
	return r
}

// ---------- exact integers ----------

// Z is an exact integer (math/big natively, a growing-width bit-vector under
// the engine): oracle arithmetic that can never wrap.
type Z struct{ v *big.Int }

func (a Z) b() *big.Int {
	if a.v == nil {
		return new(big.Int)
	}
	return a.v
}

func ZU(x uint64) Z { return Z{new(big.Int).SetUint64(x)} }
func ZI(x int64) Z  { return Z{big.NewInt(x)} }
func ZBytes(b []byte) Z { return Z{new(big.Int).SetBytes(b)} }

func (a Z) Add(b Z) Z { return Z{new(big.Int).Add(a.b(), b.b())} }
func (a Z) Sub(b Z) Z { return Z{new(big.Int).Sub(a.b(), b.b())} }
func (a Z) Mul(b Z) Z { return Z{new(big.Int).Mul(a.b(), b.b())} }

// Div and Mod truncate toward zero (Go semantics).
func (a Z) Div(b Z) Z { return Z{new(big.Int).Quo(a.b(), b.b())} }
func (a Z) Mod(b Z) Z { return Z{new(big.Int).Rem(a.b(), b.b())} }
func (a Z) Neg() Z    { return Z{new(big.Int).Neg(a.b())} }
func (a Z) Shl(n int) Z { return Z{new(big.Int).Lsh(a.b(), uint(n))} }
func (a Z) Shr(n int) Z { return Z{new(big.Int).Rsh(a.b(), uint(n))} }
func (a Z) Lt(b Z) bool { return a.b().Cmp(b.b()) < 0 }
func (a Z) Le(b Z) bool { return a.b().Cmp(b.b()) <= 0 }
func (a Z) Gt(b Z) bool { return a.b().Cmp(b.b()) > 0 }
func (a Z) Ge(b Z) bool { return a.b().Cmp(b.b()) >= 0 }
func (a Z) Eq(b Z) bool { return a.b().Cmp(b.b()) == 0 }
func (a Z) IsU64() bool { return a.b().Sign() >= 0 && a.b().BitLen() <= 64 }
func (a Z) Fits(bits int) bool { return a.b().Sign() >= 0 && a.b().BitLen() <= bits }
func (a Z) U64Trunc() uint64 {
	m := new(big.Int).And(a.b(), new(big.Int).SetUint64(^uint64(0)))
	return m.Uint64()
}

// ---------- native runner ----------

// Outcome of one native run of a harness on one tape.
func RunOne(h func(), t *Tape) (outcome string) {
	cur.tape = t
	cur.pos = 0
	cur.events = nil
	cur.tier = t.Tier
	defer func() {
		cur.tape = nil
		if r := recover(); r != nil {
			switch x := r.(type) {
			case assumeFailed:
				outcome = "assume-false"
			case assertFailed:
				outcome = "assert:" + x.tag
			case tapeMismatch:
				outcome = "tape-mismatch:" + x.msg
			default:
				msg := fmt.Sprint(r)
				if len(msg) > 200 {
					msg = msg[:200]
				}
				outcome = "panic:" + strings.ReplaceAll(msg, "\n", " ")
			}
		}
	}()
	h()
	return "ok"
}

type Fataler interface {
	Fatalf(format string, args ...interface{})
	Logf(format string, args ...interface{})
}

// RunReplay runs the tapes listed in the file named by $VERIF_TAPES (a JSON
// array of Tape) against the harnesses and prints one result line per tape.
func RunReplay(t Fataler, harnesses map[string]func()) {
	path := os.Getenv("VERIF_TAPES")
	if path == "" {
		t.Logf("VERIF_TAPES not set; nothing to replay")
		return
	}
	data, err := os.ReadFile(path)
	if err != nil {
		t.Fatalf("read tapes: %v", err)
	}
	var tapes []Tape
	if err := json.Unmarshal(data, &tapes); err != nil {
		t.Fatalf("parse tapes: %v", err)
	}
	for i := range tapes {
		h, ok := harnesses[tapes[i].Harness]
		if !ok {
			fmt.Printf("VERIF-RESULT index=%d harness=%s outcome=no-such-harness\n", i, tapes[i].Harness)
			continue
		}
		out := RunOne(h, &tapes[i])
		fmt.Printf("VERIF-RESULT index=%d harness=%s outcome=%s\n", i, tapes[i].Harness, out)
	}
}
