#!/usr/bin/env python3
"""Regenerates /verif/MANIFEST.json from the table below. Run after adding a check."""
import json, os, sys
V = os.path.dirname(os.path.dirname(os.path.abspath(__file__)))
props = [json.loads(l) for l in open(os.path.join(V, 'properties.jsonl'))]

TECH = "bounded symbolic execution of the real Go code (go/ssa -> SMT-LIB2 bit-vectors), obligations decided by z3 / cvc5 (incl. --solve-bv-as-int) portfolio; counterexamples replayed natively"
NOTE_COMMON = ("Trusted: the gosym executor's go/ssa semantics (validated by native replay of every counterexample and the conformance corpus), "
               "the SMT solvers, and the engine models/stubs listed in the evidence file's trusted_base. Bounds are those stated; nothing is claimed outside them.")

# id -> (level text, note, design ref)
CLAIMED = {}
def claim(pid, text, note="", ref=""):
    CLAIMED[pid] = (text, (note + " " if note else "") + NOTE_COMMON, ref or "DESIGN.md §5 " + pid)

NA = {
 "C05": "liveness over all bounded-delay multi-node schedules of the concurrent service; no bounded per-function obligation implies it and the composed system cannot be encoded",
 "C09": "depends on SQLite/file-system atomicity at crash points (cgo, OS); crash points cannot be made symbolic in code the encoder cannot enter",
 "C13": "the answer is assembled by SQL queries/iterators and commit scheduling in acctonline; the deciding code is the DB layer",
 "C14": "determinism across flush/restart/trie-cache schedules of tracker + DB + files; pure parts are covered under C15/C17",
 "C20": "needs two full evaluator runs (all transaction types + AVM), the pool and prefetcher goroutines; far beyond the encoder",
 "C33": "TEAL text assembly/disassembly is Go string formatting/parsing over ~250 mnemonics; no adequate string encoding in this engine",
 "C46": "SQL executed by SQLite through cgo plus scrypt/secretbox; the Go residue is DB glue",
 "C47": "equivalence of two storage engines (SQLite via cgo vs Pebble); neither is encodable",
}

exec(open(os.path.join(V, 'tools', 'claims.py')).read())

checks = []
na = []
for p in props:
    pid = p['id']
    if pid in CLAIMED:
        text, note, ref = CLAIMED[pid]
        checks.append({
            "property_id": pid,
            "quick_cmd": f"bin/check {pid} --tier quick",
            "thorough_cmd": f"bin/check {pid} --tier thorough",
            "evidence_file": f"evidence/{pid}.json",
            "replay_cmd_template": "bin/replay {path}",
            "engine": "gosym",
            "level_claimed": {"category": "other", "text": text, "design_ref": ref},
            "level_note": note,
            "technique": TECH,
        })
    else:
        na.append({"property_id": pid, "reason": NA.get(pid, "solver-based check not completed in this build (harness not yet written); not claimed")})

m = {
 "version": 1,
 "setup_cmd": "bin/setup",
 "hooks": {"guard": "verif",
           "enable": "harnesses (//go:build verif) and the internal/verifrt runtime are injected with -overlay and built with -tags verif; no hook commits exist in /repo",
           "baseline_off_cmd": "bin/baseline_off", "source_commits": [], "add_only": True},
 "engines": [{"name": "gosym", "path": "engine", "serves_properties": sorted(CLAIMED),
              "kind_free_text": "path-forking symbolic executor over go/ssa (x/tools v0.50.0) emitting SMT-LIB2 to z3 4.8.12 with cvc5 / cvc5 --solve-bv-as-int / z3 5.1 portfolio"}],
 "checks": checks,
 "not_applicable": na,
 "notes": "Exit codes of every check: 0 all obligations discharged within the stated bounds; 1 + VIOLATION line only for a counterexample reproduced natively; 2 inconclusive (solver unknown, unsupported construct, bound incomplete, vacuous harness, stale harness) - never reported as success.",
}
json.dump(m, open(os.path.join(V, 'MANIFEST.json'), 'w'), indent=1)
print("claimed:", sorted(CLAIMED), "n/a:", len(na))
