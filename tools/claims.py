# exec'd by gen_manifest.py: one claim(...) per property with a working check.

claim("C45",
      "Every checked-arithmetic helper (OAdd/OSub/OMul at 8/16/32/64 bits, ODiff, Add/Sub/MulSaturate, OverflowTracker, muldiv/Muldiv, Mul2div, "
      "Fraction.Divvy/DivvyAlgos, Micros.Mul/MulInt, MicroAlgos.MulMicros/AddSaturate/SubSaturate, Round.SubSaturate, FeeForUsage) is executed symbolically at FULL width "
      "and compared with an exact-integer oracle: flag == (true result out of range), value == exact result, saturation value, parts sum to the input. "
      "All operands symbolic; the solver verdict covers every 64-bit input, which no sampling reaches (the failing operands of a slip sit on a 2^64-product boundary).",
      "FeeForUsage is decided on top of Mul2div's contract (assume-guarantee; Mul2div itself is decided against the exact 192-bit product). "
      "Exact wide products in the oracle are normalised to 64x64 limb products (a bit-vector identity) so that oracle and implementation share product terms. "
      "DivCeil/RoundUpToMultipleOf are documented as unchecked by the code and deliberately excluded.")

claim("C25",
      "RewardsState.NextRewardsState is executed symbolically with level, rate, residue, recalculation round, pool balance, reward units, MinBalance, refresh interval and both "
      "protocol flags all symbolic 64-bit values. Decided for every input: (Δlevel·units + Δresidue == rate in effect) in exact integers whenever the 64-bit computation fits, residue' < units, "
      "level/residue unchanged when units == 0 or on overflow, and at a refresh rate'·interval <= pool − MinBalance (− residue when PendingResidueRewards) with rate' maximal, zero when underfunded.",
      "Assumes RewardsRateRefreshInterval != 0 (consensus-parameter sanity). The pool withdrawal in StartEvaluator is outside this check. Logger is a no-op model.")

claim("C26",
      "One inductive step of UpgradeState.applyUpgradeVote from an arbitrary state satisfying the stated invariant, with symbolic UpgradeVoteRounds/Threshold/Min/Max/DefaultUpgradeWaitRounds "
      "installed in config.Consensus: the invariant is preserved; CurrentProtocol changes only at r == NextProtocolSwitchOn of a pending proposal with approvals >= threshold, to exactly that version; "
      "second proposal, approval without proposal / after deadline, out-of-range delay, delay without proposal are errors; failed proposals are cleared only at their deadline. "
      "BlockHeader.PreCheck nil => header round = prev+1, Branch = prev.Hash(), and header UpgradeState == applyUpgradeVote(prev state, round, header vote).",
      "Versions drawn from {\"\", vA, vB}; parameters < 2^40 and rounds < 2^60 (no wrap), threshold <= voteRounds, voteRounds >= 1, threshold >= 1, min <= default <= max wait; "
      "block hash is an injective uninterpreted function. Composition of steps into whole histories is by induction on the invariant (paper).")

claim("C24",
      "CheckGroupFees is decided for all (feesPaid, usage, minFee): accepted only if feesPaid*1e6 >= minFee*usage (exact integers), rejected only if short or the requirement overflows. "
      "validateForPayouts with proposerPayout, DivvyAlgos, AvailableBalance and the full MinBalance formula runs against an arbitrary fee-sink account and arbitrary header fields: "
      "accepted => (payout - bonus)*100 <= percent*feesCollected, FeesCollected equals the evaluator's tally, payout == 0 or sink balance - payout >= sink MinBalance; payouts disabled => all three header fields zero.",
      "Ledger state is a nondeterministic stub parent (roundCowParent) over a pool of 5 representative addresses; Payouts.Percent <= 100 (NewPercent's validity predicate). "
      "Pure helpers (OMul/MulSaturate/...) are summarised by call merging.")

claim("C27",
      "validateExpiredOnlineAccounts / validateAbsentOnlineAccounts + isAbsent run against arbitrary account records, online stake and round, with lists of up to 3 (quick: 2 for absent) addresses drawn with repetition "
      "from a representative pool: nil => length <= protocol maximum, no duplicates, every expired account has a vote key and VoteLastValid < round; every absent account is Online, non-zero, IncentiveEligible, "
      "was seen before, and satisfies the stake-proportional rule lastSeen + floor(20*total/stake) < round in exact integers with lag <= MaxUint32.",
      "Assumes the evaluator-maintained invariant LastProposed/LastHeartbeat <= round and round < 2^62 (otherwise lastSeen+lag wraps: excluded as an unreachable pre-state, see DESIGN). "
      "Challenge-based absence (ChallengeInterval != 0) is outside this check (ChallengeInterval = 0).")

claim("C15",
      "AccountHashBuilderV6, ResourcesHashBuilderV6 (+rdGetCreatableHashKind), KvHashBuilderV6, hashBufV6, finishV6 and the CatchpointLabelMakerV6/V7/Current buffers are executed on two ARBITRARY argument tuples "
      "with crypto.Hash an injective uninterpreted function: equal trie leaf => equal (kind, address, creatable index, encoded data); leaves of different kinds never coincide; equal label pre-image => equal "
      "block hash, trie root, totals and (per version) state-proof / online-account hashes. KNOWN FINDING (reproduced natively with the real SHA-512/256): KvHashBuilderV6 hashes key||value with no length "
      "delimiter, so distinct boxes share a leaf; recorded in known_findings.json, every other obligation stays live.",
      "Encoded blobs are opaque byte strings of symbolic length <= 3 (thorough <= 6); addresses fully symbolic. The truncated (31-byte) digest is idealised as collision free. "
      "EncodeReflect(totals) is an opaque byte string (reflection is not encodable).")

claim("C06",
      "Bounded model check of the real voteTracker.handle (with overThreshold, count, genBundle, makeBundle, reachesQuorum and the sort in genBundle) from the empty tracker over EVERY sequence of L votes "
      "by S senders for 2 values, per-sender weight and step threshold fully symbolic, one harness per step kind (soft, cert, next). After every vote a ghost reference recomputes each value's weight counting each "
      "equivocator once for every value; decided: tracker counts == reference, a threshold event is returned iff a value's weight first reaches the threshold (at most once), for such a value, with the right kind; "
      "duplicates and votes of known equivocators are silent and add no weight; the returned bundle's votes are all for that value, senders distinct and disjoint from its equivocation pairs, weights sum >= threshold.",
      "Quick: L=4, S=2; thorough: L=4, S=3. Histories entering the tracker's own Panicf guards (too many equivocators / two values over threshold = the honest-supermajority assumption) are outside the domain; "
      "any runtime panic is a violation. Weights in [1, 2^60), threshold in [1, 2^62). Tracer/telemetry are no-ops; map iteration in insertion order.")

claim("C04",
      "The real unauthenticatedBundle.verifyAsync (and the future it returns), unauthenticatedVote.verify, unauthenticatedEquivocationVote.verify, Certificate.Authenticate and claimsToAuthenticate run on an ARBITRARY bundle: "
      "symbolic round/period, step in {propose, soft, cert, next(,next+1)}, up to 2 votes + 1 equivocation pair (thorough 3+2) whose senders and values are SYMBOLIC selections from 4 senders / 3 values (incl. bottom), symbolic threshold, per-sender symbolic "
      "weight, key validity window, membership failure, credential selection and per-(sender,value) signature validity. Decided both ways against an independent predicate: accepted => step != propose, senders pairwise distinct across both lists, every vote and both halves of "
      "every pair signed for exactly the bundle's (round, period, step, value) by a selected sender inside its key window, pair values differ, no bottom in soft/cert votes, total weight >= threshold; rejected => that predicate fails (or the bundle is larger than the threshold). "
      "Authenticate nil => additionally step == cert, round == block round, digest == block digest.",
      "Cryptography idealised: signature / credential validity are arbitrary boolean functions of (sender, message) (tables), a signature for one message says nothing about another (single shared nondeterministic answer). "
      "AsyncVoteVerifier.verifyVote/verifyEqVote run the real verify synchronously (execpool concurrency and cancellation are outside the check). Stubs are substituted natively through overlay hook variables for replay.")

claim("C32",
      "Each opcode function is called directly on an EvalContext whose stack holds fully symbolic operands and is compared with an exact-integer reference: + - * / % (error iff overflow / negative / zero divisor, exact value), "
      "< > <= >= == != && || !, | & ^ ~, shl/shr (all 64 shift amounts case-split, error iff amount > 63), bitlen (input space partitioned by the expected answer), addw, mulw, divw (error iff divisor 0 or quotient >= 2^64, "
      "0 <= num - q*y < y), itob, btoi (lengths 0..9), sqrt (operand < 2^16 quick / 2^32 thorough), and byte math b+ b- b* b/ b% b< b> b<= b>= b== b!= on big-endian operands of symbolic length and content "
      "(<= 2 bytes quick, <= 4 thorough; * / % <= 1 / 2 bytes) with math/big executed as real pure-Go code, plus the 64-byte input limit. exp: exponents 0, 1, 2 and >= 64 with a fully symbolic 64-bit base "
      "(0^0 fails; result exact or error iff base^e >= 2^64). A Go panic inside an opcode is a violation.",
      "64-bit uint ops are full width. exp with exponents 3..63 is NOT solver-decided (chains of symbolic 64-bit products with a division per step were undecided by every back end, even for e=3 and base < 2^33): VerifC32ExpGrid runs it on concrete bases 2, 3 and the five values around floor(2^(64/e)) for every e - a grid of concrete runs, reported as such. "
      "expw/divmodw/bsqrt and bitwise byte ops are not covered. math/big is loaded with the math_big_pure_go tag (same semantics as the assembly kernels used natively).")

claim("C31",
      "One EvalContext.step() of every opcode of the real latest-version dispatch table (built by the package's own init, executed by the engine from the current tree), in signature mode, with the stack filled according to the opcode's declared "
      "argument types by fully symbolic uint64 values / byte strings of symbolic length and content, symbolic intc/bytec/arg contents and symbolic immediate bytes after the opcode. Decided: no Go panic is reachable inside step() "
      "(eval()'s recover never fires for these steps), and after a successful step cost <= budget, stack depth <= maxStackDepth, every byte string <= maxStringSize, pc inside the program. The ledger is nil, so the same run decides that no opcode "
      "that executes in signature mode reaches ledger code (C34).",
      "Bounds: 3 symbolic program bytes after the opcode (thorough 6), byte-string operands <= 1 byte (thorough 2), single step from a stack of exactly the declared arity. Not executed (stated in the harness): cgo / large field-library crypto opcodes "
      "(ed25519verify*, ecdsa_*, vrf_verify, falcon_verify, ec_*, mimc, sumhash512, sha*/keccak, json_ref) and the multi-word arithmetic opcodes covered by C32 (divmodw, exp, expw, sqrt, b*, b/, b%, bsqrt); operands that size an allocation/loop (bzero, dupn, popn) <= 4. "
      "Whole-program termination, application mode and inner transactions are outside this check.")

claim("C34",
      "(a) Table level: the per-version dispatch tables built by the package's real init() are copied into plain arrays and queried with a SYMBOLIC (version, opcode): an opcode dispatched at version v was introduced at or before v and stays "
      "available at v+1; every opcode named in an independent list of ledger-touching operations is excluded from signature mode at every version. (b) Dynamic: in the C31 step harness the ledger is nil, so any signature-mode step reaching ledger code "
      "would panic; additionally a step that succeeds in signature mode has ModeSig in its mask. (c) Static/dynamic agreement: for every opcode with a check function or a dynamic size (constant blocks, push*, branches, callsub, switch, match, proto, frame ops...), "
      "on the same symbolic immediate bytes, checkStep and step advance the pc identically and every branch target execution takes was marked legal by the check; a non-branching step that executes also passes the check. "
      "(d) Field level: for every version 1..LogicVersion, every opcode of that version's table with a field immediate, and every field number the opcode's FieldGroup says is not usable at that version (each too-new field, the first undefined number, 255), one real step() on symbolic operands (application mode with a nil ledger for app-only opcodes; concrete valid P-256 operands for the ecdsa opcodes) ends in an error and never panics.",
      "Latest version table for (b),(c); 3 symbolic bytes after the opcode (thorough 6). (d) trusts the FieldGroup tables (Names, Version()) as the oracle and covers the first field immediate of an opcode; fields hidden from the assembler (empty name) and sub-opcode tables are skipped. Back-branch alignment needs whole-program knowledge (instructionStarts) and is exempted in the single-step setting (explained in the harness).")

claim("C37",
      "Real Build/Prove/Verify/VerifyVectorCommitment (layer hashing, partial layers, sibling hints, index conversion and padding, worker goroutines sequentialised) with the hash an injective uninterpreted function. "
      "Completeness: every n in 1..6 (thorough 8) and every position tuple of size 1-2 (thorough 3, duplicates and any order): Prove succeeds, TreeDepth = ceil(log2 n), Verify nil. Soundness against an ARBITRARY proof: symbolic TreeDepth, "
      "symbolic number of hints, hints of symbolic content and of sizes 0 / digest / 2x digest: Verify nil => position < n, element equals the array's element there, hints = depth; pairs of positions; vector-commitment position binding with arbitrary depth field. "
      "Three genuine defects found by these harnesses (depth not checked, oversized left hint, empty left hint), confirmed natively with real SHA-512/256 and Sumhash, were REPAIRED by a 'fix:' commit in /repo; the check now passes on the repaired tree.",
      "n <= 4 for adversarial harnesses (thorough 5-6). Hash collision freedom idealised. See known_findings.json (status fixed) and findings/c37/ for the native reproduction.")

claim("C36",
      "Real GenerateOneTimeSignatureSecretsRNG, DeleteBeforeFineGrained, Sign, OneTimeSignatureVerifier.Verify and OneTimeIDForRound-style identifiers with ed25519 keygen/sign/verify replaced by an ideal signature scheme (injective functions of seed and message, verify by table): "
      "for symbolic current and query identifiers after 0, 1 or 2 deletions a live id signs and verifies, a retired id yields the empty signature and never verifies; a signature is bound to its id and message; and a compromise model (adversary holding every remaining secret "
      "and signature plus its own key, assembling Sig/PK/PK1Sig/PK2Sig by symbolic picks) cannot forge for any retired id while it can for live ones. Batch/offset index arithmetic never panics. Encoding lemmas check the real msgp ToBeHashed encodings are injective and domain separated.",
      "Quick: 2 batches, dilution 1-2; thorough: 3 batches, dilution <= 4. Assumes id.Offset < dilution, id.Batch != 2^64-1 (otherwise Batch+1 wraps: unreachable for real rounds), no wrap of start+batches. Memory erasure and key persistence are outside.")

claim("C43",
      "LimitedReaderSlurper.Read/Reset/Size/Bytes against a nondeterministic io.Reader (any n in 0..len(p), any contents, nil/EOF/other error) with symbolic base/max allocation and 64-bit limit, up to 4 reads (thorough 6), also two consecutive messages and real 64 KiB allocation steps: "
      "total capacity never exceeds the maximum, no allocation or read after the limit was exceeded, exactly one probe byte when the budget is used up; the result is an exact function of the reader's answers (ErrIncomingMsgTooLarge iff delivered count exceeds a non-zero limit or the probe finds a byte; "
      "nil iff EOF otherwise), Size() and Bytes() reproduce the stream. messageFilter.CheckDigest: BMC from the empty filter over 3 distinct symbolic digests, 2-3 buckets of size 1-2 (thorough 3), 5-6 calls: every answer equals a counter reference model; a digest stays reported while fewer than (buckets-1)*size insertions followed it; never-added digests are never reported.",
      "wsPeer.readLoop wiring, websocket framing and the keyed hash (CheckIncomingMessage) are outside; crypto.RandBytes stubbed.")

claim("C42",
      "Stateless layer: for generated msgpack votes (all 64 field-presence masks, every byte of every binary field symbolic, each uint in any msgpack width) CompressVote succeeds, output equals the documented packed layout, size <= MaxCompressedVoteSize, DecompressVote reproduces the input byte for byte; "
      "arbitrary packed input (partitioned by mask, marker class, length) is accepted iff well-formed and exactly sized, never panics, and recompresses to itself up to the ignored header bits; short inputs error. Stateful layer: one inductive step from EQUAL encoder/decoder states "
      "(arbitrary LRU buckets and MRU bits, arbitrary lastRnd, arbitrary proposal window): Decompress(Compress(x)) == x and the two states are equal again; arbitrary stateful references are accepted iff valid and denote the receiver-state values.",
      "Votes are built by a reference encoder in the harness (canonical domain). Table size 16 (the minimum) only; sparse symbolic bytes in the stateful harnesses (first/last byte of each field plus hash-selecting bytes). network/msgCompressor.go wiring is outside.")

claim("C22",
      "apply.AssetTransfer / AssetConfig / AssetFreeze (takeOut, putIn, getParams) against a small Balances model (3 accounts, thorough 4, one asset; amounts and totals full 64-bit symbolic), one transaction from an arbitrary state satisfying sum(holdings) == Total: "
      "after every accepted transaction the sum is unchanged (or the asset is destroyed); non-zero movement out of / into a frozen holding only with clawback authority (and the code's documented close-to-creator exception); both parties must hold the slot; sufficient balance; "
      "close-out rules and AssetClosingAmount; destroy only if the creator holds the entire supply; create/reconfigure/freeze post-states exact.",
      "Pre-state invariant assumed (sum == Total while the asset exists, creator holds a slot, counters < 2^40). cow_creatables bookkeeping and inner-transaction entry are outside.")

claim("C23",
      "roundCowState.NewBox/SetBox/DelBox/GetBox over a nondeterministic parent (box present with arbitrary value or absent), symbolic name/value (<= 2 bytes quick, 4 thorough), single operations and sequences of 2-3: TotalBoxes/TotalBoxBytes change by exactly +-1 / +-(len(name)+len(value)) "
      "on create/delete, not at all on replace or rejection; double create and missing delete rejected; GetBox agrees with a ghost. setKey/delKey + storageDelta counts: after every accepted operation the recorded uint/byteslice counts equal exact ghost counts and stay within the schema; rejections have a stated reason.",
      "Assumes counters < 2^62, schema limits <= 2^16, pre-state counts within limits. AVM box opcodes' own checks are outside.")

claim("C11",
      "txTail.newBlock/checkDup/committedUpTo: BMC from the empty tail over 2 rounds (thorough 3), one symbolic candidate transaction per round (txid byte, first/last valid, sender of 2, lease zero or fixed) included only if accepted, StateDelta built as addTx builds it, then an arbitrary query: "
      "verdicts compared both ways with a ghost list (TransactionInLedgerError iff committed and still in its window, LeaseInLedgerError iff an unexpired (sender, lease) exists, nil otherwise), under FixTransactionLeases and (thorough) the legacy rule; pruning never drops a live entry. "
      "roundCowState/roundCowBase.checkDup: duplicates and active leases inside one block (also via child cows committed to the parent) are caught without consulting the ledger, otherwise the ledger is asked exactly once with the block round and its verdict returned unchanged.",
      "MaxTxnLife 2 (thorough symbolic 1..4); loadFromDisk / restarts are outside; tail.Encode stubbed.")

claim("C12",
      "AccountTotals.AddAccount/DelAccount/ApplyRewards/All/Participating/RewardUnits and AccountData.Money/WithUpdatedRewards at full 64-bit width, layered: RewardUnits == exact quotient; Money/WithUpdatedRewards == algos + q*(level-base); then one inductive step over 2 (thorough 3) arbitrary accounts: "
      "if totals equal the exact per-status sums then after DelAccount(old)+AddAccount(new) and after ApplyRewards(L -> L') they do again whenever the overflow tracker is clean; overflow is flagged only when a true sum exceeds 2^64.",
      "Two instances of the distributive law are assumed (not decidable by the solvers in this encoding) and checked on an exhaustive {0,1,2}^k grid (VerifC12HintsGrid). Assumes unit >= 1, RewardsBase <= level, money < 2^64. That the trackers apply exactly these steps per modified account is outside.")

claim("C01",
      "One step of the real player.handle from an ARBITRARY player state (symbolic Round, Period, Step, LastConcluding, Napping, FastRecoveryDeadline, Deadline) against an oracle router that answers every request the player sends "
      "(proposal store / vote aggregator queries) with an arbitrary event of the right type and logs each consultation; one harness per event kind (soft/cert/next threshold, timeout, fast timeout, round interruption, verified vote / bundle / payload / proposal-vote, present messages). "
      "Decided on every path: a cert vote is non-bottom, at step <= cert, and backed by a committable answer for that value at the vote's (round, period); soft votes follow the next-value / frozen-value rules and are never bottom; next votes are non-bottom only if staged-committable or the previous period's next value; "
      "Round advances exactly once per ensureAction, Period moves exactly as the handled threshold prescribes, timeouts never change Round/Period, Step never decreases; every attest carries the post-step (Round, Period); at most one vote per timeout. "
      "Companion harnesses run the real proposalTracker, voteAggregator and vote trackers for the routing / staging contracts the oracle assumes.",
      "One step (any second step starts from a state the arbitrary pre-state already covers). Assumes Step in [soft, 60], Round/Period < 2^62, threshold events for the player's round with matching step and non-bottom soft/cert proposal (C06/C04), no timeout while napping before step next, "
      "oracle stability contracts (committable => non-bottom; staged(e.Round,e.Period) = e.Proposal after a delivered soft/cert threshold). step.nextVoteRanges and proposal value() are stubs; config.Consensus is a concrete version with symbolic DynamicFilterTimeout. "
      "Cross-node safety (two honest players never certify different values) is the paper argument on top of these per-step lemmas and C06; it is not decided here.")

claim("C02",
      "(a) action.persistent / persistent([]action) over all 8 action types with symbolic T: true iff a pseudonodeAction of type attest is present. (b) 16 harnesses of TWO consecutive real player steps (timeout, fast timeout, soft threshold, payload, in every order) against the C01 oracle with timers replaced by arbitrary values between the steps: "
      "no two attests with equal (round, period, step) carry different values, a period is soft-voted once, a next step is voted once, every attest is a persistent pseudonodeAction and persistent(out) is true iff a vote is present. "
      "(c) the real pseudonodeVotesTask.execute with pre-filled channels (persistence closed / error then closed / nil / quit-only, optional racing quit), up to 2 votes: no vote is released on a persistence error or a quit before persistence, the persistence result is consumed before release, released votes are exactly the verified ones, keys.Record fires once per release.",
      "makeVotes, verifyVote and time.After are stubs; goroutines are sequentialised and channel contents pre-filled (single-threaded channel model), so real interleavings of the persistence goroutine and crash points between the disk write and the send are outside: the write-ahead ordering is decided at the level of 'release waits for the persistence channel'. "
      "The disk format / crash recovery (persistence.go encode-decode, restore) is outside this check.")

claim("C03",
      "For every ensureAction emitted by one real player step (cert threshold; verified vote or bundle completing the cert quorum; round interruption; late payload with a stored bundle; two commits in one step through the pipelined freshest bundle): the Certificate is field for field the bundle of the cert event handled or consulted, that event is a certThreshold, "
      "Certificate.Round = pre-round + k, Step = cert, Proposal non-bottom, the payload is the one reported committable for exactly (e.Round, e.Period) (or the verified payload on the late path), payload.value() == Certificate.Proposal, and the player ends in round + number of ensures; soft/next thresholds, timeouts and proposal-votes never ensure. Bundle side (VerifC03CertBundleFromTracker): the C06 bounded model check of the real cert-step voteTracker.handle / genBundle (5 votes, thorough 6, by 3 senders with one shared symbolic weight) decides that the bundle handed to the player has all votes for the threshold value, distinct senders disjoint from its equivocation pairs and weight >= threshold.",
      "Same oracle, stubs and preconditions as C01; 'event round = player round' is assumed here and decided on the real voteAggregator in the C01 companion harness. The ledger's EnsureBlock and the asynchronous ledger writer are outside.")

claim("C16",
      "The real catchpointCatchupAccessor VerifyCatchpoint decision (label comparison) with a fake catchpoint store and GetVerifyData stubbed: nil iff all state reads succeed, the catchpoint file version is supported (<=V6 as V6, V7, V8), the stored block round equals blk.Round() and the stored label equals the label of "
      "(round, block digest, balances root, totals, + state-proof hash for V7/V8, + online-accounts and online-round-params hashes for V8) - both directions; two (block, staging data) pairs verifying against the same stored label agree on every ingredient the version commits to; each real label maker's buffer() is exactly the concatenation the oracle assumes.",
      "MakeLabel / Block.Digest / EncodeReflect(totals) are injective uninterpreted functions. Chunk processing, trie rebuild from the staging tables, the file reader/writer and GetVerifyData's SQL are outside (sqlite is not encodable): the claim is 'VerifyCatchpoint accepts only matching labels', not 'the restored ledger equals the producer's'.")

claim("C28",
      "crypto.MultisigBatchPrep / MultisigVerify on arbitrary multisigs (0-3 subsig slots, thorough 4, symbolic version, threshold, key and signature bytes): nil => version 1, 1 <= threshold <= slots <= 255, address == H(MultisigAddr, version, threshold, keys), signed slots >= threshold and exactly the signed slots are enqueued, each with its own key, message and signature; 256 slots rejected. "
      "verify.checkTxnSigTypeCounts / txnBatchPrep / stxnCoreChecks: exactly one of Sig, Msig, Lsig, PQsig is accepted (none only for the state-proof sender), the single check performed is against AuthAddr-or-sender over the transaction with the carried material; rekey rules both ways; the real logicSigVerify / LogicSigSanityCheck delegation rules (Sig, Msig, LMsig, PQ delegation, program-hash address); "
      "PQSig.Verify derives the address from (scheme, salt, key); eval.transaction (validate on) applies the transaction iff AuthAddr-or-sender equals the ledger's AuthAddr-or-sender for the sender.",
      "crypto.Hash / PQAddress injective uninterpreted functions; batch verifiers are recording fakes (signature-scheme validity is an uninterpreted predicate); logic.CheckSignature / EvalSignatureFull / applyTransaction stubbed. Signature scheme soundness, program evaluation and logicSigGroupSizeCheck are outside. eval.transaction skips the check when validate=false (as coded).")

claim("C29",
      "BlockEvaluator.TransactionGroup / TestTransactionGroup and transactions.CheckTxnGroup on groups of 1-3 (thorough 4) with all 32 Group bytes symbolic: accepted => n <= MaxTxGroupSize, all members carry the same non-zero (when n > 1) Group equal to H(TG || ordered group-less IDs), every member evaluated exactly once in order, payset grows by n; rejection adds nothing. "
      "Block.ContentsMatchHeader with PaysetCommit type, both commitment flags, protocol and tree errors symbolic: true iff all three commitment fields equal the recomputed ones (disabled commitment must be zero); two paysets matching one header are identical. BlockHeader.PreCheck nil => known protocol, Round = prev+1, Branch = H(prev), Branch512 = H512(prev) when enabled and zero otherwise, genesis ID / hash rules; a correctly linked header is accepted.",
      "Transaction.ID, crypto.Hash, hashTxGroup, BlockHeader.Hash/Hash512, Payset.CommitFlat and the three TxnMerkleTree roots are injective uninterpreted functions (the Merkle construction itself is C37); eval.transaction is a recording stub. Paysets of 0-2 (thorough 3) transactions differing in one note byte. msgpack encodings and collision resistance are outside.")

claim("C30",
      "The real catchup Service.fetchAndWrite with up to 2 fetch attempts (thorough 3), each an adversarial choice among fetch error, no-block error, nil block or a block+certificate with symbolic ContentsMatchHeader and Authenticate verdicts, symbolic CatchupBlockValidateMode (0-15) and symbolic ledger answers: at most one write and never through EnsureBlock; the written pair is the last fetched block and certificate; "
      "unless the mode bit disables it the written block matched its header and the pair authenticated, with those checks preceding the write on that same block; the write happens only after the previous round's completion signal was consumed; Validate precedes AddValidatedBlock in validate modes; a response failing an enabled check is never written; err == nil iff the ledger accepted the write.",
      "innerFetch, Block.ContentsMatchHeader and errors.As are stubs; ledger, authenticator, peer selector and context are fakes; lookbackComplete modelled closed, no select ever has two ready cases. pipelinedFetch's cross-goroutine channel wiring, timeouts/backoff, the real fetcher (incl. its round == r check) and the 500-retry limit are outside.")

claim("C18",
      "The real roundCowState.Move (UnfundedSenders on and off, self-transfer), BlockEvaluator takeFee / proposer payout and apply.Payment (with and without close) over a 4-5 account model with full 64-bit symbolic balances, reward levels and amounts: on nil, amt <= money(from), no credit overflow, "
      "money(from) and money(to) change by exactly amt and the exact-integer total is conserved, pending rewards are folded consistently (MicroAlgos, RewardedMicroAlgos, RewardsBase) and the reward counters grow by exactly the folded rewards, no other account or field changes; feesCollected grows by the fee exactly when the sender is not the sink; "
      "Payment conserves the total of all accounts, ClosingAmount is everything the sender had left, a closed sender ends at zero and is deleted only when no money and no asset/app/box counters remain; every error has a stated reason and never credits the receiver.",
      "Move is not atomic on its own (a failed receiver credit leaves the debited sender in the cow): atomicity is C19's, and the harness states what is true of Move. Contracts used instead of code: WithUpdatedRewards / RewardUnits (decided in C12), autoHeartbeat (decided by its own harness). Assumes RewardUnit >= 1 and that each account's money and the model total fit 64 bits (supply bound). "
      "The rewards-pool withdrawal in StartEvaluator, asset / app / inner-transaction paths and whole-block composition are outside.")

claim("C19",
      "Merge lemma: the real roundCowState child / commitToParent / recycle over a block-level cow on an arbitrary ledger, 0-2 writes (thorough 3) to accounts (incl. closes), boxes, transactions (checkDup + addTx) and creatables, compared with a ghost: the child sees its own writes, the parent is isolated until commit, after commit it returns exactly the child's values for what the child wrote and its previous values otherwise, after discard it is unchanged. "
      "Real BlockEvaluator.TransactionGroup with groups of 0-2 (thorough 3) members whose evaluation is an arbitrary writer that returns nil, returns an error or panics: on error every account, the box, duplicate verdicts, counters, payset and block bytes are identical to before, evaluation stopped at the first failing member, a panic is reported as EvalPanicError; on nil every member ran once in order on a child of eval.state and exactly the members' writes are visible.",
      "eval.transaction is a stub writer (arbitrary account record, box, fee tally, addTx); crypto.Hash / Transaction.ID injective uninterpreted; members distinct and not already in the block; a child never calls SetStateProofNextRound(0) (apply.StateProof never does). Quick tier fixes validate=true for the pair harness.")

claim("C21",
      "basics.MinBalance formula: with MulSaturate replaced by min(P, 2^64-1) over an uninterpreted product it returns min(MinBalance + the nine products, 2^64-1) exactly (64-bit adds with carry flags), and the schema entry term saturates like perEntry*(uints+byteslices). The real checkMinBalance over a child cow with 1-2 modified records (possibly closed, or a special address): nil => every non-special, non-zero modified account has balance incl. pending rewards >= requirement (or the requirement saturates and the balance is exactly 2^64-1) and the requirement respects MaximumMinimumBalance; "
      "the real eval.transaction applies then checks exactly once, on the group's cow, after the writes, whenever validating or generating, and a failing check rejects the transaction.",
      "Contracts: MulSaturate/AddSaturate (decided in C45), WithUpdatedRewards (C12). The documented formula's grouping of AppFlatParams terms relies on distributivity, which is not decided. applyTransaction is a stub in the transaction harness. With neither validate nor generate set the check is skipped (as documented).")

claim("C08",
      "accountUpdates lookupWithoutRewards / lookupResource / lookupKv / getCreatorForRound / roundOffset on a tracker state built from a symbolic cachedDBRound D and 2 (thorough 3) real StateDeltas, each optionally writing the queried object, LRU cache disabled / empty / holding the DB value, and a lazy DB reader (in-sync row, out-of-sync row, error): for every query round in [D, D+N] the answer equals the ghost history value at that round (whole struct), rewards level/version are that round's, validThrough is sound; "
      "if memory determines the answer the DB is not called, otherwise exactly once for that object; an answer with round != D yields MismatchingDatabaseRoundError; outside the window every lookup errors without touching the DB.",
      "Representation invariants R1-R5 of the tracker (versions/roundTotals lengths, index maps consistent with deltas, base-cache entries equal the DB value at D) are ASSUMED; their maintenance by newBlock / commitRound / postCommit / loadFromDisk - the flush-schedule and restart half of the property - is outside, as are the synchronized retry loops, lookupLatest, lookupAllResources and online accounts.")

claim("C10",
      "accountUpdates.lookupAssetResources(addr, cursor, limit) with a DB reader obeying the SQL contract (first min(max,K) rows above the cursor, increasing, joined creator/params, round D), K <= 2 rows (thorough 3), limit 1..2 (3), two delta rounds with symbolic holding writes/deletes, creator create/reconfigure/destroy and third-party records: the page is exactly the first `limit` present ids above the cursor in the merged (DB + deltas) view - strictly increasing, newest amount, creator/params from the newest params record (absent when destroyed), nothing present skipped unless beyond a full page; "
      "a DB behind the tracker gives StaleDatabaseRoundError, reader errors pass through, limit 0 touches nothing.",
      "Single page at the latest round only; the SQL scan, lookupApplicationResources, kv-prefix / box listings, REST next-token plumbing and multi-page iteration (on paper: pages taken at one round compose) are outside; a DB ahead of the tracker waits on a condition variable that is not modelled.")

claim("C35",
      "The real availability machinery - NewAppEvalParams / computeAvailability (every resources.fill* / share*), RecordAD for created assets, and the resolvers availableAccount / accountReference / mutableAccountReference / assignAccount / resolveAccount, availableAsset / assetReference / resolveAsset, the app counterparts, allowsHolding / requireHolding / holdingReference, allowsLocals / requireLocals / localsReference - for the app call at index 0 of a group of 1-2 transactions "
      "(second transaction pay, keyreg, acfg, axfer, afrz, app call with arrays or with tx.Access), program version symbolic (4..14 single, 7..10 two-transaction), reference lists of up to 2 symbolic entries, query ids full 64-bit symbolic and query address over every scenario address plus the zero address and an outsider: resolver success => the resource satisfies an oracle restating the sharing rules (own lists, created-in-group from v6, foreign-app addresses from v7, group sharing from v9 with per-transaction holdings/locals pairs), and availableX / allowsX <=> oracle in both directions; ids <= 255 never returned under AppForbidLowResources. "
      "KNOWN FINDING (reproduced natively, findings/c35): under tx.Access the zero address is treated as named as soon as the list holds any non-address entry (IndexByAddress compares against empty Address fields); recorded in known_findings.json, every other obligation stays live.",
      "AppIndex.Address is an injective uninterpreted function; no ledger is reached. Outside: simulation's UnnamedResources, versions < 4, boxes, the inner-transaction allows* checks, groups larger than 2; the Access harnesses exclude id 0 as an operand (id 0 names no resource).")

claim("C44",
      "The real TransactionPool.Remember / checkPendingQueueSize / remember / ingest / checkSufficientFee / computeFeePerByte / addToPendingBlockEvaluator(Once) / rememberCommit(false) on a hand-built pool (txPoolMaxSize <= 4, numPendingWholeBlocks <= 3, symbolic fee multiplier, overflow / shutdown / no-evaluator flags, 0, 1 or 3 pending transactions) with a scripted block evaluator (nil / ErrNoSpace / other) and a group of one, two, or a single state-proof transaction with symbolic Fee / FirstValid / LastValid: "
      "Remember == nil => the evaluator accepted exactly this group (one call, or two when the first answer was ErrNoSpace, with one reset and numPendingWholeBlocks + 1), every member is alive (LastValid >= round + pending blocks, exact integers), every member pays at least the fee-per-byte threshold (except the free state-proof), the queue size limit held (or the one-time state-proof overflow slot was consumed), and pendingTxGroups / pendingTxids grew by exactly this group; on any error both collections are unchanged and nothing stays staged.",
      "Ledger.Latest, Transaction.ID (injective tag) and GetEncodedLength (per-transaction constant) are stubs; inputs bounded so the 64-bit threshold arithmetic cannot wrap. OnNewBlock / recomputeBlockEvaluator / AssembleBlock / rememberCommit(flush=true), the fee-multiplier update and the wait-for-ledger loop are outside: the claim is the admission rule of one Remember call, not the pool's evolution over blocks.")

claim("C17",
      "The real Trie.Add / Delete / RootHash / Commit / Evict and MakeTrie re-open over the real paged cache (node add/remove with leaf collapse, calculateHash, commit with page reallocation, evict, deferred page load, node/page (de)serialisation) with an in-memory committer, crypto.Hash an injective uninterpreted function, fully symbolic 2-byte keys (3-byte in thorough) and 2 (thorough 4) page configurations: "
      "histories of 3 free Add/Delete operations - Add true iff absent, Delete true iff present, no errors, final root == root of a fresh trie filled in sorted order == an independent specification of the canonical root, empty set => zero digest; storage histories Add, action, op, action, op with actions Commit / Evict(true) / Evict(false) (refused iff dirty) / Reload / Crash (re-open without commit, ghost set rolls back), then root == specification, commit, re-open, same root, and a whole-trie walk that must load every stored node; deep scenarios: three filling Adds, Reload or Evict(true), then a free symbolic fourth operation. "
      "A genuine defect found by the Evict scenario (evicted allocation page loses its nodes at the next commit) was repaired by a fix: commit in /repo and is recorded as fixed.",
      "encodePage is replaced by a statement-for-statement copy writing into a right-sized buffer (the engine copies the 768 KB staging array on every store); VerifC17EncodePageModel runs the REAL encodePage on symbolic pages and asserts byte equality with the copy and a decodePage round trip. Outside: histories of 4+ free operations, longer keys, the SQLite committer, a crash in the middle of Commit.")

claim("C41",
      "The real msgp UnmarshalMsgWithState decoders of proposalValue, rawVote, unauthenticatedVote, voteAuthenticator, equivocationVoteAuthenticator, unauthenticatedBundle (fresh and re-used object), OneTimeSignature, committee.Credential (package agreement) and RewardsState (package bookkeeping) on inputs generated from a per-type schema taken from the codec tags - concrete msgpack marker bytes, symbolic payloads - in three modes: one node under attack (every class of that node's kind: 13 for uints, 25 for fixed byte arrays, 24 for structs, 12 for fixed arrays, 19 for slices incl. counts bound+1, 2^31, 2^32-1, any symbolic count above the bound, map-flattened counts), truncation at every token boundary and one byte after, and AllowableDepth from 0 to needed+1. "
      "Decided: no panic; slice len and cap stay within the allocbound whether or not an error is returned; the decoder accepts exactly the inputs the schema reference accepts; consumed + remaining == input; every decoded leaf holds what the input denotes and untouched fields keep their pre-state; depth limit honoured. Raw complement: proposalValue on a fully symbolic buffer of up to 4 bytes (thorough 5) and on a real key followed by symbolic value bytes.",
      "A fully symbolic raw buffer for the composite types is not practical (msgp's 256-entry lead-byte table costs seconds per query): the raw harnesses run with msgp.badPrefix/getType replaced by equivalent range comparisons, checked against the real table on all 256 bytes (VerifC41TypeTable). Slice counts >= 2^31 reach an engine-unsupported make (reported inconclusive on a mutated tree, not a pass). Quick attacks nodes at depth <= 1 of the composite types; thorough every node with every byte symbolic. Transaction / block decoders and the network tag dispatch are outside.")

claim("C40",
      "The real msgp MarshalMsg / UnmarshalMsg / Msgsize / MsgIsZero of proposalValue, rawVote, unauthenticatedVote, voteAuthenticator, equivocationVoteAuthenticator, unauthenticatedBundle (slice shapes nil, 1, 2, empty-but-not-nil), OneTimeSignature, Credential (agreement) and RewardsState, UpgradeVote (bookkeeping) against a reference canonical encoder driven by the struct tags as written in the type declarations (sorted keys, map header sized to non-omitted fields, omitempty / omitemptyarray rules, minimal-width integers, bin8/16/32, nil slices and maps): "
      "MarshalMsg(x) equals the reference byte for byte, UnmarshalMsg(MarshalMsg(x)) == x with nothing left over, Msgsize is an upper bound, MsgIsZero agrees; the zero/non-zero pattern of every leaf and each integer's magnitude class are enumerated, contents symbolic. The reference encoder itself is checked against literal msgpack vectors.",
      "EncodeReflect (go-codec reflection) is not encodable: agreement of the generated and reflection encoders is claimed only via the tag-derived reference. Quick uses the 2n+2 single-leaf patterns, thorough all subsets for n <= 8 and all magnitude rotations for n <= 15. Transactions, blocks and the remaining message types are outside.")

claim("C07",
      "Round trip of the persisted agreement state through the real generated codecs: player (all persisted scalars, Pending nil/empty, OldDeadline zero and non-zero), Deadline (all int64/int8 magnitude classes), vote, equivocationVote, proposalTracker (Duplicate nil/empty/one entry, proposalSeeker), voteTracker (Voters, Counts with inner Votes, Equivocators each nil/empty/one entry, proposalVoteCounter), proposalValue, rawVote: canonical bytes equal the tag-derived reference and decode(encode(x)) == x. "
      "The real persistence.go encode()/decode() with reflect=false, a stub clock and a root router holding 0-2 children at symbolic rounds: children with rnd >= p.Round are kept and the others dropped, player and clock restored, the source router untouched.",
      "diskState.Actions and the msgp-failure fallback (both reflection), messageEvent entries in Pending and maps with more than one entry are outside. player.lowestCredentialArrivals / dynamicFilterTimeout and proposalSeeker.lowestIncludingLate are not persisted by design (a restored node uses the default filter timeout until its history refills): a timing difference that the property's 'behaves identically' clause does not hold for, documented and not asserted. Crash-point atomicity of the SQLite write is outside (C09).")

claim("C38",
      "stateproof numReveals / verifyWeights / getSubExpressions and the coin generator's threshold / getNextCoin against an exact-integer oracle with no division (y = sw^2 + 2^(d+2) sw + 2^(2d), x = 3*2^16 (sw^2 - 2^(2d)), w = d*45426, accepted iff n(x + w y) >= (target*45427 + n P) y): getSubExpressions returns exactly y, x, w for symbolic 64-bit signed weight; verifyWeights nil <=> n <= 640 and the inequality, with P, n, target full 64-bit and the signed weight sampled per bit length (quick 5 lengths x 3 shapes, thorough all 64 x 5); zero weight refused; numReveals = (n, nil) => 1 <= n <= 640, n = floor(num/den)+1 and the inequality holds, error cases exact; real math/big with no stubs on small symbolic operands (sw < 5, thorough < 64) and a concrete grid; "
      "coin threshold is the multiple of sw in (2^64 - sw, 2^64], a sample is rejected iff >= threshold, coin = sample mod sw < sw, a second call draws fresh samples.",
      "In the wide harnesses the ten *big.Int methods used are engine-side stubs over a ghost table to exact integers (aliasing modelled; natively real math/big runs); two ring identities are assumed and grid-checked; the signed weight is sampled, not symbolic, wherever the code branches on the wide comparison; <= 2 rejections in the coin loop; SHAKE is a nondeterministic byte source. LnIntApproximation (floating point), CreateProof and coinIndex are outside. Observation (not production reachable at StateProofStrengthTarget = 256): numReveals takes Uint64() of the quotient without a fit check.")

claim("C39",
      "The real stateproof Verifier.Verify (tree depth checks, salt-version check down to the Falcon salt byte, buildCommittableSignature, the reveal and position loops, the coin range test) with up to 2 reveals and 2 positions: err == nil <=> a reference model holds - both tree depths <= 20, the weights oracle accepts (SignedWeight, lnProvenWeight, len(PositionsToReveal), target), the signature oracle accepts this round's message under that reveal's key, both vector-commitment oracles accept exactly the revealed leaves, and every position has a reveal with L <= coin < L + Weight in exact integers (the code additionally refuses a reveal whose L + Weight overflows 64 bits); on acceptance the coin generator was seeded once with (participants commitment, lnProvenWeight, SigCommit, SignedWeight, data) and exactly one coin was drawn per position. "
      "The real coin seed ToBeHashed: byte layout, domain separator and injectivity; makeCoinGenerator stamps the version and absorbs exactly the seed.",
      "verifyWeights (C38), Verifier.VerifyBytes, the fixed-length signature representation, merklearray.VerifyVectorCommitment (C37) and the coin stream are arbitrary consistent predicates / values (uninterpreted functions). Prover-side completeness (CreateProof => verifies), stateproof/verify.ValidateStateProof, the ledger apply path and more than 2 reveals are outside.")
