# exec'd by gen_manifest.py: one claim(...) per property with a working check.

claim("C45",
      "Every checked-arithmetic helper (OAdd/OSub/OMul at 8/16/32/64 bits, ODiff, Add/Sub/MulSaturate, OverflowTracker, muldiv/Muldiv, Mul2div, "
      "Fraction.Divvy/DivvyAlgos, Micros.Mul/MulInt, MicroAlgos.MulMicros/AddSaturate/SubSaturate, Round.SubSaturate, FeeForUsage) is executed symbolically at FULL width "
      "and compared with an exact-integer oracle: flag == (true result out of range), value == exact result, saturation value, parts sum to the input. "
      "All operands symbolic; the solver verdict covers every 64-bit input, which no sampling reaches (the failing operands of a slip sit on a 2^64-product boundary).",
      "FeeForUsage is decided on top of Mul2div's contract (assume-guarantee; Mul2div itself is decided against the exact 192-bit product). "
      "Exact wide products in the oracle are normalised to 64x64 limb products (a bit-vector identity) so that oracle and implementation share product terms. "
      "DivCeil/RoundUpToMultipleOf are documented as unchecked by the code and deliberately excluded.")
