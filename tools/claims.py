# exec'd by gen_manifest.py: one claim(...) per property with a working check.

claim("C45",
      "Every checked-arithmetic helper (OAdd/OSub/OMul at 8/16/32/64 bits, ODiff, Add/Sub/MulSaturate, OverflowTracker, muldiv/Muldiv, Mul2div, "
      "Fraction.Divvy/DivvyAlgos, Micros.Mul/MulInt, MicroAlgos.MulMicros/AddSaturate/SubSaturate, Round.SubSaturate, FeeForUsage) is executed symbolically at FULL width "
      "and compared with an exact-integer oracle: flag == (true result out of range), value == exact result, saturation value, parts sum to the input. "
      "All operands symbolic; the solver verdict covers every 64-bit input, which no sampling reaches (the failing operands of a slip sit on a 2^64-product boundary).",
      "FeeForUsage is decided on top of Mul2div's contract (assume-guarantee; Mul2div itself is decided against the exact 192-bit product). "
      "Exact wide products in the oracle are normalised to 64x64 limb products (a bit-vector identity) so that oracle and implementation share product terms. "
      "DivCeil/RoundUpToMultipleOf are documented as unchecked by the code and deliberately excluded.")

claim("C25",
      "RewardsState.NextRewardsState is executed symbolically with level, rate, residue, recalculation round, pool balance, reward units, MinBalance, refresh interval and both "
      "protocol flags all symbolic 64-bit values. Decided for every input: (Δlevel·units + Δresidue == rate in effect) in exact integers whenever the 64-bit computation fits, residue' < units, "
      "level/residue unchanged when units == 0 or on overflow, and at a refresh rate'·interval <= pool − MinBalance (− residue when PendingResidueRewards) with rate' maximal, zero when underfunded.",
      "Assumes RewardsRateRefreshInterval != 0 (consensus-parameter sanity). The pool withdrawal in StartEvaluator is outside this check. Logger is a no-op model.")

claim("C26",
      "One inductive step of UpgradeState.applyUpgradeVote from an arbitrary state satisfying the stated invariant, with symbolic UpgradeVoteRounds/Threshold/Min/Max/DefaultUpgradeWaitRounds "
      "installed in config.Consensus: the invariant is preserved; CurrentProtocol changes only at r == NextProtocolSwitchOn of a pending proposal with approvals >= threshold, to exactly that version; "
      "second proposal, approval without proposal / after deadline, out-of-range delay, delay without proposal are errors; failed proposals are cleared only at their deadline. "
      "BlockHeader.PreCheck nil => header round = prev+1, Branch = prev.Hash(), and header UpgradeState == applyUpgradeVote(prev state, round, header vote).",
      "Versions drawn from {\"\", vA, vB}; parameters < 2^40 and rounds < 2^60 (no wrap), threshold <= voteRounds, voteRounds >= 1, threshold >= 1, min <= default <= max wait; "
      "block hash is an injective uninterpreted function. Composition of steps into whole histories is by induction on the invariant (paper).")

claim("C24",
      "CheckGroupFees is decided for all (feesPaid, usage, minFee): accepted only if feesPaid*1e6 >= minFee*usage (exact integers), rejected only if short or the requirement overflows. "
      "validateForPayouts with proposerPayout, DivvyAlgos, AvailableBalance and the full MinBalance formula runs against an arbitrary fee-sink account and arbitrary header fields: "
      "accepted => (payout - bonus)*100 <= percent*feesCollected, FeesCollected equals the evaluator's tally, payout == 0 or sink balance - payout >= sink MinBalance; payouts disabled => all three header fields zero.",
      "Ledger state is a nondeterministic stub parent (roundCowParent) over a pool of 5 representative addresses; Payouts.Percent <= 100 (NewPercent's validity predicate). "
      "Pure helpers (OMul/MulSaturate/...) are summarised by call merging.")

claim("C27",
      "validateExpiredOnlineAccounts / validateAbsentOnlineAccounts + isAbsent run against arbitrary account records, online stake and round, with lists of up to 3 (quick: 2 for absent) addresses drawn with repetition "
      "from a representative pool: nil => length <= protocol maximum, no duplicates, every expired account has a vote key and VoteLastValid < round; every absent account is Online, non-zero, IncentiveEligible, "
      "was seen before, and satisfies the stake-proportional rule lastSeen + floor(20*total/stake) < round in exact integers with lag <= MaxUint32.",
      "Assumes the evaluator-maintained invariant LastProposed/LastHeartbeat <= round and round < 2^62 (otherwise lastSeen+lag wraps: excluded as an unreachable pre-state, see DESIGN). "
      "Challenge-based absence (ChallengeInterval != 0) is outside this check (ChallengeInterval = 0).")

claim("C15",
      "AccountHashBuilderV6, ResourcesHashBuilderV6 (+rdGetCreatableHashKind), KvHashBuilderV6, hashBufV6, finishV6 and the CatchpointLabelMakerV6/V7/Current buffers are executed on two ARBITRARY argument tuples "
      "with crypto.Hash an injective uninterpreted function: equal trie leaf => equal (kind, address, creatable index, encoded data); leaves of different kinds never coincide; equal label pre-image => equal "
      "block hash, trie root, totals and (per version) state-proof / online-account hashes. KNOWN FINDING (reproduced natively with the real SHA-512/256): KvHashBuilderV6 hashes key||value with no length "
      "delimiter, so distinct boxes share a leaf; recorded in known_findings.json, every other obligation stays live.",
      "Encoded blobs are opaque byte strings of symbolic length <= 3 (thorough <= 6); addresses fully symbolic. The truncated (31-byte) digest is idealised as collision free. "
      "EncodeReflect(totals) is an opaque byte string (reflection is not encodable).")

claim("C06",
      "Bounded model check of the real voteTracker.handle (with overThreshold, count, genBundle, makeBundle, reachesQuorum and the sort in genBundle) from the empty tracker over EVERY sequence of L votes "
      "by S senders for 2 values, per-sender weight and step threshold fully symbolic, one harness per step kind (soft, cert, next). After every vote a ghost reference recomputes each value's weight counting each "
      "equivocator once for every value; decided: tracker counts == reference, a threshold event is returned iff a value's weight first reaches the threshold (at most once), for such a value, with the right kind; "
      "duplicates and votes of known equivocators are silent and add no weight; the returned bundle's votes are all for that value, senders distinct and disjoint from its equivocation pairs, weights sum >= threshold.",
      "Quick: L=4, S=2; thorough: L=4, S=3. Histories entering the tracker's own Panicf guards (too many equivocators / two values over threshold = the honest-supermajority assumption) are outside the domain; "
      "any runtime panic is a violation. Weights in [1, 2^60), threshold in [1, 2^62). Tracer/telemetry are no-ops; map iteration in insertion order.")

claim("C04",
      "The real unauthenticatedBundle.verifyAsync (and the future it returns), unauthenticatedVote.verify, unauthenticatedEquivocationVote.verify, Certificate.Authenticate and claimsToAuthenticate run on an ARBITRARY bundle: "
      "symbolic round/period, step in {propose, soft, cert, next(,next+1)}, up to 2 votes + 1 equivocation pair (thorough 3+2) whose senders and values are SYMBOLIC selections from 4 senders / 3 values (incl. bottom), symbolic threshold, per-sender symbolic "
      "weight, key validity window, membership failure, credential selection and per-(sender,value) signature validity. Decided both ways against an independent predicate: accepted => step != propose, senders pairwise distinct across both lists, every vote and both halves of "
      "every pair signed for exactly the bundle's (round, period, step, value) by a selected sender inside its key window, pair values differ, no bottom in soft/cert votes, total weight >= threshold; rejected => that predicate fails (or the bundle is larger than the threshold). "
      "Authenticate nil => additionally step == cert, round == block round, digest == block digest.",
      "Cryptography idealised: signature / credential validity are arbitrary boolean functions of (sender, message) (tables), a signature for one message says nothing about another (single shared nondeterministic answer). "
      "AsyncVoteVerifier.verifyVote/verifyEqVote run the real verify synchronously (execpool concurrency and cancellation are outside the check). Stubs are substituted natively through overlay hook variables for replay.")

claim("C32",
      "Each opcode function is called directly on an EvalContext whose stack holds fully symbolic operands and is compared with an exact-integer reference: + - * / % (error iff overflow / negative / zero divisor, exact value), "
      "< > <= >= == != && || !, | & ^ ~, shl/shr (all 64 shift amounts case-split, error iff amount > 63), bitlen (input space partitioned by the expected answer), addw, mulw, divw (error iff divisor 0 or quotient >= 2^64, "
      "0 <= num - q*y < y), itob, btoi (lengths 0..9), sqrt (operand < 2^16 quick / 2^32 thorough), and byte math b+ b- b* b/ b% b< b> b<= b>= b== b!= on big-endian operands of symbolic length and content "
      "(<= 2 bytes quick, <= 4 thorough; * / % <= 1 / 2 bytes) with math/big executed as real pure-Go code, plus the 64-byte input limit. A Go panic inside an opcode is a violation.",
      "64-bit uint ops are full width. exp/expw/divmodw/bsqrt and bitwise byte ops are not yet covered. math/big is loaded with the math_big_pure_go tag (same semantics as the assembly kernels used natively).")

claim("C31",
      "One EvalContext.step() of every opcode of the real latest-version dispatch table (built by the package's own init, executed by the engine from the current tree), in signature mode, with the stack filled according to the opcode's declared "
      "argument types by fully symbolic uint64 values / byte strings of symbolic length and content, symbolic intc/bytec/arg contents and symbolic immediate bytes after the opcode. Decided: no Go panic is reachable inside step() "
      "(eval()'s recover never fires for these steps), and after a successful step cost <= budget, stack depth <= maxStackDepth, every byte string <= maxStringSize, pc inside the program. The ledger is nil, so the same run decides that no opcode "
      "that executes in signature mode reaches ledger code (C34).",
      "Bounds: 3 symbolic program bytes after the opcode (thorough 6), byte-string operands <= 1 byte (thorough 2), single step from a stack of exactly the declared arity. Not executed (stated in the harness): cgo / large field-library crypto opcodes "
      "(ed25519verify*, ecdsa_*, vrf_verify, falcon_verify, ec_*, mimc, sumhash512, sha*/keccak, json_ref) and the multi-word arithmetic opcodes covered by C32 (divmodw, exp, expw, sqrt, b*, b/, b%, bsqrt); operands that size an allocation/loop (bzero, dupn, popn) <= 4. "
      "Whole-program termination, application mode and inner transactions are outside this check.")

claim("C34",
      "(a) Table level: the per-version dispatch tables built by the package's real init() are copied into plain arrays and queried with a SYMBOLIC (version, opcode): an opcode dispatched at version v was introduced at or before v and stays "
      "available at v+1; every opcode named in an independent list of ledger-touching operations is excluded from signature mode at every version. (b) Dynamic: in the C31 step harness the ledger is nil, so any signature-mode step reaching ledger code "
      "would panic; additionally a step that succeeds in signature mode has ModeSig in its mask. (c) Static/dynamic agreement: for every opcode with a check function or a dynamic size (constant blocks, push*, branches, callsub, switch, match, proto, frame ops...), "
      "on the same symbolic immediate bytes, checkStep and step advance the pc identically and every branch target execution takes was marked legal by the check; a non-branching step that executes also passes the check.",
      "Latest version table for (b),(c); 3 symbolic bytes after the opcode (thorough 6). Field-level gating (txn/global/asset_params_get field groups) is not covered. Back-branch alignment needs whole-program knowledge (instructionStarts) and is exempted in the single-step setting (explained in the harness).")
