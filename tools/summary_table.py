#!/usr/bin/env python3
"""Prints a markdown table of what the last run of each claimed check covered (from evidence/*.json)."""
import json, glob, os
V = os.path.dirname(os.path.dirname(os.path.abspath(__file__)))
man = json.load(open(os.path.join(V, 'MANIFEST.json')))
ids = [c['property_id'] if 'property_id' in c else c.get('id') for c in man.get('checks', [])]
print('| id | tier of last run | harnesses | paths | obligations (non-trivial) | solver queries | solver s | wall s | functions encoded |')
print('|---|---|---|---|---|---|---|---|---|')
for f in sorted(glob.glob(os.path.join(V, 'evidence', '*.json'))):
    e = json.load(open(f))
    c = e['coverage']
    hs = c.get('harnesses', [])
    paths = sum(h.get('paths', 0) for h in hs)
    obl = sum(h.get('obligations', 0) for h in hs)
    triv = sum(h.get('trivially_true', 0) for h in hs)
    q = sum(h.get('solver_queries', 0) for h in hs)
    ss = sum(h.get('solver_s', 0) for h in hs)
    print('| %s | %s | %d | %d | %d (%d) | %d | %.0f | %.0f | %d |' % (e['property_id'], e.get('tier', '?'), len(hs), paths, obl, obl - triv, q, ss, e.get('wall_s', 0), len(c.get('functions_encoded', []))))
