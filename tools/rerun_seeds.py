#!/usr/bin/env python3
"""Re-run every recorded seeded change against /repo itself.

For each /verif/seeded/<PROP>-<name>/: git -C /repo apply patch.diff, run the
registered quick check of the property (bin/check PROP, plus the harness filter
recorded in meta.json if any), git -C /repo checkout -- . ; expects exit 1 with
a VIOLATION line.  Results are appended to each meta.json under "rerun_on_repo"
and printed as a table.  /repo must be clean and nobody else may be using it.

usage: rerun_seeds.py [PROP-prefix ...]
"""
import glob, json, os, subprocess, sys, time
V = os.path.dirname(os.path.dirname(os.path.abspath(__file__)))
sel = sys.argv[1:]
dirty = subprocess.run('git -C /repo status --porcelain --untracked-files=no', shell=True, capture_output=True, text=True).stdout.strip()
if dirty:
    sys.exit('refusing: /repo has local modifications:\n' + dirty)
rows = []
for d in sorted(glob.glob(os.path.join(V, 'seeded', '*'))):
    name = os.path.basename(d)
    if sel and not any(name.startswith(s) for s in sel):
        continue
    meta = json.load(open(os.path.join(d, 'meta.json')))
    prop = meta['property']
    cmd = meta.get('confirmed', {}).get('check_cmd', 'bin/check %s' % prop).strip()
    patch = os.path.join(d, 'patch.diff')
    r = subprocess.run(['git', '-C', '/repo', 'apply', patch], capture_output=True, text=True)
    if r.returncode != 0:
        rows.append((name, 'patch does not apply', 0))
        continue
    t0 = time.time()
    try:
        p = subprocess.run(cmd, shell=True, cwd=V, capture_output=True, text=True, timeout=3600)
        rc, out = p.returncode, p.stdout + p.stderr
    except subprocess.TimeoutExpired:
        rc, out = 124, ''
    finally:
        subprocess.run('git -C /repo checkout -- .', shell=True)
    viol = [l for l in out.splitlines() if l.startswith('VIOLATION')]
    wall = round(time.time() - t0, 1)
    meta['rerun_on_repo'] = {'cmd': cmd, 'exit': rc, 'violation_lines': viol[:4], 'wall_s': wall, 'detected': rc == 1 and bool(viol)}
    json.dump(meta, open(os.path.join(d, 'meta.json'), 'w'), indent=1)
    rows.append((name, 'DETECTED' if rc == 1 and viol else 'exit %d' % rc, wall))
    print('%-45s %-10s %6.1fs' % rows[-1], flush=True)
bad = [r for r in rows if r[1] != 'DETECTED']
print('%d seeded changes, %d detected' % (len(rows), len(rows) - len(bad)))
sys.exit(1 if bad else 0)
