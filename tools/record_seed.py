#!/usr/bin/env python3
"""Confirm a seeded mutant in its scratch worktree and against the /verif check, then record it.

usage: record_seed.py <PROP> <worktree> <mutant-dir> <name> [check args...]
 1. in the worktree: apply patch, place the demo test, run it (must FAIL); revert the patch,
    run it again (must PASS); clean up.
 2. in /repo: git apply the patch, run bin/check PROP [args], expect exit 1; git checkout -- .
 3. copy patch.diff, demo, meta.json (+ what was run and observed) to /verif/seeded/<PROP>-<name>/
"""
import json, os, re, shutil, subprocess, sys, time
V = os.path.dirname(os.path.dirname(os.path.abspath(__file__)))
prop, wt, mdir, name = sys.argv[1:5]
extra = sys.argv[5:]
env = dict(os.environ, GOFLAGS='-mod=mod', GOPROXY='off')
meta = json.load(open(os.path.join(mdir, 'meta.json')))
patch = os.path.join(mdir, 'patch.diff')
demo = os.path.join(mdir, 'demo_test.go')
first = open(demo).readline()
m = re.search(r'([\w./-]+/[\w./-]+|\./[\w/]+)', first)
touched = meta.get('touched_files') or []
pkgdir = os.path.dirname(touched[0]) if touched else None
src = open(demo).read()
# the demo's package directory: prefer the path named in its first-line comment
for cand in re.findall(r'[\w\-]+(?:/[\w\-]+)+', first):
    if os.path.isdir(os.path.join(wt, cand)):
        pkgdir = cand
        break
demo_dst = os.path.join(wt, pkgdir, 'zz_seed_demo_%s_test.go' % name)
testname = re.search(r'func (Test\w+)\(', src).group(1)

def sh(cmd, cwd, timeout=1800):
    p = subprocess.run(cmd, shell=True, cwd=cwd, env=env, capture_output=True, text=True, errors='replace', timeout=timeout)
    return p.returncode, (p.stdout + p.stderr)[-1500:]

def demo_run():
    return sh("go test -count=1 -run '^%s$' ./%s" % (testname, pkgdir), wt)

obs = {}
sh('git checkout -- .', wt)
rc, out = sh('git apply %s' % patch, wt); assert rc == 0, out
shutil.copy(demo, demo_dst)
rc, out = sh('go build ./%s/...' % pkgdir.split('/')[0], wt)
obs['build_with_patch'] = 'ok' if rc == 0 else out
rc1, out1 = demo_run()
obs['demo_with_patch'] = 'FAIL (as required)' if rc1 != 0 else 'PASS (unexpected)'
sh('git checkout -- .', wt)
rc2, out2 = demo_run()
obs['demo_without_patch'] = 'PASS (as required)' if rc2 == 0 else 'FAIL (unexpected): ' + out2[-400:]
os.remove(demo_dst)
# against the check
# SEED_IN_WT=1: while other work is using /repo, run the check against the scratch
# worktree with the patch applied (VERIF_REPO) instead of patching /repo itself;
# tools/rerun_seeds.py later re-runs every recorded seed against /repo proper.
target = wt if os.environ.get('SEED_IN_WT') else '/repo'
rc, out = sh('git -C %s apply %s' % (target, patch), V); assert rc == 0, out
t0 = time.time()
try:
    env['VERIF_REPO'] = target
    rc3, out3 = sh('bin/check %s %s' % (prop, ' '.join(extra)), V, timeout=3600)
finally:
    sh('git -C %s checkout -- .' % target, V)
obs['check_target'] = target
viol = [l for l in out3.splitlines() if l.startswith('VIOLATION') or 'violated:' in l]
obs['check_cmd'] = 'bin/check %s %s' % (prop, ' '.join(extra))
obs['check_exit'] = rc3
obs['check_wall_s'] = round(time.time() - t0, 1)
obs['check_lines'] = [l[:300] for l in viol][:6]
obs['detected'] = rc3 == 1
dst = os.path.join(V, 'seeded', '%s-%s' % (prop, name))
os.makedirs(dst, exist_ok=True)
shutil.copy(patch, os.path.join(dst, 'patch.diff'))
shutil.copy(demo, os.path.join(dst, 'demo_test.go'))
meta['property'] = prop
meta['demo_package_dir'] = pkgdir
meta['confirmed'] = obs
meta['origin'] = 'independent sub-agent given only the property text and a scratch worktree'
json.dump(meta, open(os.path.join(dst, 'meta.json'), 'w'), indent=1)
print(json.dumps(obs, indent=1))
